//! `mcount` for the function-entry seam build of the simulator.
use std::cell::Cell;
use std::sync::atomic::{AtomicUsize, Ordering};

static HOOK: AtomicUsize = AtomicUsize::new(0);

thread_local! {
    /// set while the hook runs on this thread: the hook is instrumented code
    /// itself, its own function entries must not re-enter it
    static BUSY: Cell<bool> = const { Cell::new(false) };
}

/// Registers the function called at every instrumented function entry.
pub fn set_hook(f: fn()) {
    HOOK.store(f as usize, Ordering::SeqCst);
}

#[no_mangle]
pub extern "C" fn mcount() {
    let h = HOOK.load(Ordering::Relaxed);
    if h == 0 {
        return;
    }
    let _ = BUSY.try_with(|b| {
        if !b.replace(true) {
            // SAFETY: the value was stored from a `fn()` by `set_hook`
            let f: fn() = unsafe { std::mem::transmute::<usize, fn()>(h) };
            f();
            b.set(false);
        }
    });
}
