//! `mcount` for the function-entry seam build of the simulator.
use std::cell::Cell;
use std::sync::atomic::{AtomicUsize, Ordering};

static HOOK: AtomicUsize = AtomicUsize::new(0);

thread_local! {
    /// set while the hook runs on this thread: the hook is instrumented code
    /// itself, its own function entries must not re-enter it
    static BUSY: Cell<bool> = const { Cell::new(false) };
}

/// Registers the function called at every instrumented function entry.
pub fn set_hook(f: fn()) {
    HOOK.store(f as usize, Ordering::SeqCst);
}

#[no_mangle]
pub extern "C" fn mcount() {
    let h = HOOK.load(Ordering::Relaxed);
    if h == 0 {
        return;
    }
    let _ = BUSY.try_with(|b| {
        if !b.replace(true) {
            // SAFETY: the value was stored from a `fn()` by `set_hook`
            let f: fn() = unsafe { std::mem::transmute::<usize, fn()>(h) };
            f();
            b.set(false);
        }
    });
}

// ------------------------------------------------------------------------
// ThreadSanitizer interface, re-purposed: the instrumented crates are compiled
// with `-Zsanitizer=thread -Zexternal-clangrt`, i.e. with TSan's compile-time
// instrumentation but WITHOUT its runtime. The functions the instrumentation
// calls are provided here: plain memory accesses are no-ops (safe Rust cannot
// race on them), function entries and every ATOMIC operation are scheduling
// points — the hook is called first, then the operation is carried out for
// real. In safe Rust every unsynchronised shared access is an atomic, so this
// puts a seam exactly where lock-free shared state can be observed half-updated.

#[inline(always)]
fn seam() {
    mcount();
}

macro_rules! noop1 {
    ($($name:ident),*) => { $( #[no_mangle] pub extern "C" fn $name(_a: *mut u8) {} )* };
}
noop1!(
    __tsan_read1, __tsan_read2, __tsan_read4, __tsan_read8, __tsan_read16,
    __tsan_write1, __tsan_write2, __tsan_write4, __tsan_write8, __tsan_write16,
    __tsan_unaligned_read1, __tsan_unaligned_read2, __tsan_unaligned_read4, __tsan_unaligned_read8, __tsan_unaligned_read16,
    __tsan_unaligned_write1, __tsan_unaligned_write2, __tsan_unaligned_write4, __tsan_unaligned_write8, __tsan_unaligned_write16,
    __tsan_volatile_read1, __tsan_volatile_read2, __tsan_volatile_read4, __tsan_volatile_read8, __tsan_volatile_read16,
    __tsan_volatile_write1, __tsan_volatile_write2, __tsan_volatile_write4, __tsan_volatile_write8, __tsan_volatile_write16,
    __tsan_unaligned_volatile_read1, __tsan_unaligned_volatile_read2, __tsan_unaligned_volatile_read4, __tsan_unaligned_volatile_read8, __tsan_unaligned_volatile_read16,
    __tsan_unaligned_volatile_write1, __tsan_unaligned_volatile_write2, __tsan_unaligned_volatile_write4, __tsan_unaligned_volatile_write8, __tsan_unaligned_volatile_write16,
    __tsan_read_write1, __tsan_read_write2, __tsan_read_write4, __tsan_read_write8, __tsan_read_write16,
    __tsan_unaligned_read_write1, __tsan_unaligned_read_write2, __tsan_unaligned_read_write4, __tsan_unaligned_read_write8, __tsan_unaligned_read_write16
);

#[no_mangle]
pub extern "C" fn __tsan_init() {}
#[no_mangle]
pub extern "C" fn __tsan_func_entry(_pc: *mut u8) {
    seam();
}
#[no_mangle]
pub extern "C" fn __tsan_func_exit() {}
#[no_mangle]
pub extern "C" fn __tsan_vptr_update(_a: *mut *mut u8, _v: *mut u8) {}
#[no_mangle]
pub extern "C" fn __tsan_vptr_read(_a: *mut *mut u8) {}
#[no_mangle]
pub extern "C" fn __tsan_read_range(_a: *mut u8, _n: usize) {}
#[no_mangle]
pub extern "C" fn __tsan_write_range(_a: *mut u8, _n: usize) {}
#[no_mangle]
pub unsafe extern "C" fn __tsan_memcpy(d: *mut u8, s: *const u8, n: usize) -> *mut u8 {
    unsafe { std::ptr::copy_nonoverlapping(s, d, n) };
    d
}
#[no_mangle]
pub unsafe extern "C" fn __tsan_memmove(d: *mut u8, s: *const u8, n: usize) -> *mut u8 {
    unsafe { std::ptr::copy(s, d, n) };
    d
}
#[no_mangle]
pub unsafe extern "C" fn __tsan_memset(d: *mut u8, c: i32, n: usize) -> *mut u8 {
    unsafe { std::ptr::write_bytes(d, c as u8, n) };
    d
}
#[no_mangle]
pub extern "C" fn __tsan_atomic_thread_fence(_mo: i32) {
    seam();
    std::sync::atomic::fence(Ordering::SeqCst);
}
#[no_mangle]
pub extern "C" fn __tsan_atomic_signal_fence(_mo: i32) {
    std::sync::atomic::compiler_fence(Ordering::SeqCst);
}

macro_rules! tsan_atomics {
    ($t:ty, $at:ty, $load:ident, $store:ident, $xchg:ident, $add:ident, $sub:ident, $and:ident, $or:ident, $xor:ident, $nand:ident, $casv:ident, $cass:ident, $casw:ident) => {
        #[no_mangle]
        pub unsafe extern "C" fn $load(a: *mut $t, _mo: i32) -> $t {
            seam();
            unsafe { <$at>::from_ptr(a) }.load(Ordering::SeqCst)
        }
        #[no_mangle]
        pub unsafe extern "C" fn $store(a: *mut $t, v: $t, _mo: i32) {
            seam();
            unsafe { <$at>::from_ptr(a) }.store(v, Ordering::SeqCst)
        }
        #[no_mangle]
        pub unsafe extern "C" fn $xchg(a: *mut $t, v: $t, _mo: i32) -> $t {
            seam();
            unsafe { <$at>::from_ptr(a) }.swap(v, Ordering::SeqCst)
        }
        #[no_mangle]
        pub unsafe extern "C" fn $add(a: *mut $t, v: $t, _mo: i32) -> $t {
            seam();
            unsafe { <$at>::from_ptr(a) }.fetch_add(v, Ordering::SeqCst)
        }
        #[no_mangle]
        pub unsafe extern "C" fn $sub(a: *mut $t, v: $t, _mo: i32) -> $t {
            seam();
            unsafe { <$at>::from_ptr(a) }.fetch_sub(v, Ordering::SeqCst)
        }
        #[no_mangle]
        pub unsafe extern "C" fn $and(a: *mut $t, v: $t, _mo: i32) -> $t {
            seam();
            unsafe { <$at>::from_ptr(a) }.fetch_and(v, Ordering::SeqCst)
        }
        #[no_mangle]
        pub unsafe extern "C" fn $or(a: *mut $t, v: $t, _mo: i32) -> $t {
            seam();
            unsafe { <$at>::from_ptr(a) }.fetch_or(v, Ordering::SeqCst)
        }
        #[no_mangle]
        pub unsafe extern "C" fn $xor(a: *mut $t, v: $t, _mo: i32) -> $t {
            seam();
            unsafe { <$at>::from_ptr(a) }.fetch_xor(v, Ordering::SeqCst)
        }
        #[no_mangle]
        pub unsafe extern "C" fn $nand(a: *mut $t, v: $t, _mo: i32) -> $t {
            seam();
            unsafe { <$at>::from_ptr(a) }.fetch_nand(v, Ordering::SeqCst)
        }
        #[no_mangle]
        pub unsafe extern "C" fn $casv(a: *mut $t, c: $t, v: $t, _mo: i32, _fmo: i32) -> $t {
            seam();
            match unsafe { <$at>::from_ptr(a) }.compare_exchange(c, v, Ordering::SeqCst, Ordering::SeqCst) {
                Ok(o) | Err(o) => o,
            }
        }
        #[no_mangle]
        pub unsafe extern "C" fn $cass(a: *mut $t, c: *mut $t, v: $t, _mo: i32, _fmo: i32) -> i32 {
            seam();
            let expected = unsafe { *c };
            match unsafe { <$at>::from_ptr(a) }.compare_exchange(expected, v, Ordering::SeqCst, Ordering::SeqCst) {
                Ok(_) => 1,
                Err(o) => {
                    unsafe { *c = o };
                    0
                }
            }
        }
        #[no_mangle]
        pub unsafe extern "C" fn $casw(a: *mut $t, c: *mut $t, v: $t, mo: i32, fmo: i32) -> i32 {
            unsafe { $cass(a, c, v, mo, fmo) }
        }
    };
}
use std::sync::atomic::{AtomicU16, AtomicU32, AtomicU64, AtomicU8};
tsan_atomics!(u8, AtomicU8, __tsan_atomic8_load, __tsan_atomic8_store, __tsan_atomic8_exchange, __tsan_atomic8_fetch_add, __tsan_atomic8_fetch_sub, __tsan_atomic8_fetch_and, __tsan_atomic8_fetch_or, __tsan_atomic8_fetch_xor, __tsan_atomic8_fetch_nand, __tsan_atomic8_compare_exchange_val, __tsan_atomic8_compare_exchange_strong, __tsan_atomic8_compare_exchange_weak);
tsan_atomics!(u16, AtomicU16, __tsan_atomic16_load, __tsan_atomic16_store, __tsan_atomic16_exchange, __tsan_atomic16_fetch_add, __tsan_atomic16_fetch_sub, __tsan_atomic16_fetch_and, __tsan_atomic16_fetch_or, __tsan_atomic16_fetch_xor, __tsan_atomic16_fetch_nand, __tsan_atomic16_compare_exchange_val, __tsan_atomic16_compare_exchange_strong, __tsan_atomic16_compare_exchange_weak);
tsan_atomics!(u32, AtomicU32, __tsan_atomic32_load, __tsan_atomic32_store, __tsan_atomic32_exchange, __tsan_atomic32_fetch_add, __tsan_atomic32_fetch_sub, __tsan_atomic32_fetch_and, __tsan_atomic32_fetch_or, __tsan_atomic32_fetch_xor, __tsan_atomic32_fetch_nand, __tsan_atomic32_compare_exchange_val, __tsan_atomic32_compare_exchange_strong, __tsan_atomic32_compare_exchange_weak);
tsan_atomics!(u64, AtomicU64, __tsan_atomic64_load, __tsan_atomic64_store, __tsan_atomic64_exchange, __tsan_atomic64_fetch_add, __tsan_atomic64_fetch_sub, __tsan_atomic64_fetch_and, __tsan_atomic64_fetch_or, __tsan_atomic64_fetch_xor, __tsan_atomic64_fetch_nand, __tsan_atomic64_compare_exchange_val, __tsan_atomic64_compare_exchange_strong, __tsan_atomic64_compare_exchange_weak);
