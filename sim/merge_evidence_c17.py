#!/usr/bin/env python3
"""Merges the per-configuration parts written by `qsim sbatch` into /verif/evidence/C17.json."""
import json, sys, time, os, re
prop, tier, seed, t0 = sys.argv[1], sys.argv[2], int(sys.argv[3]), float(sys.argv[4])
allparts = []
for p in sys.argv[5:]:
    d = json.load(open(p))
    d["configuration"] = re.sub(r"^C17-|(-sys)?\.json$", "", os.path.basename(p))
    d["cold"] = d["configuration"].endswith("-cold")
    allparts.append(d)
parts = [p for p in allparts if p.get("source", "rnd") != "sys"]
soak = [p for p in parts if str(p.get("source", "")).startswith("soak")]
sysparts = [p for p in allparts if p.get("source") == "sys"]
tot = lambda k: sum(p[k] for p in parts)
fk = lambda k: sum(p["faults_fired"][k] for p in parts)
wall = time.time() - t0
samples = []
for p in parts:
    for s in p["samples"][:1]:
        samples.append({"configuration": p["configuration"], **s})
ev = {
 "property_id": prop,
 "tier": tier,
 "seed": seed,
 "level": "exploration",
 "coverage": {
  "evaluations": tot("runs") + sum(p["runs"] for p in sysparts),
  "distinct_nontrivial": tot("distinct_nontrivial_runs"),
  "rule": "one evaluation = one simulated run: 1-4 real caller threads (only one runs at a time; the simulator decides at every seam call, at every operation boundary and - in about half of the multi-threaded runs - at every allocation made inside a serialisation or deserialisation (and, in the f64-serde-fnseam configuration, at every function entry and atomic operation of the library), who proceeds), each performing 1-5 round trips (serialise a quantity value / a unit / several values in one container, then deserialise the result) through one of four routes (plus, per type, one 'soak' run: a single thread round-tripping values and units of that type more than a million times over in one process): the simulator's own serde Serializer and Deserializer over a lossless data-model tree (every call the library's Serialize / Deserialize impl makes into it is a seam call), serde_json::to_writer / from_reader over a simulated io::Write / io::Read (every write / read is a seam call; short writes and reads and ErrorKind::Interrupted on top), serde_json::to_string / from_str, serde_json::to_value / from_value. A seam call is a scheduling point, a fault point (error from then on; panic caught by the caller; for readers also premature end of stream) and a re-entrancy point (the seam itself round-trips another value on the same thread). Everything is derived from the run seed = f(VERIF_SEED, run index). A run is non-trivial if the simulation dimension was exercised in it: a thread switch in the middle of an operation, a fired fault, or a re-entrant round trip; runs are distinct by (operation lists, schedule trace) hash. Oracle: every serialisation whose seam never faulted must complete Ok; a bare unit must serialise as its variant name; deserialising the result through a seam that never faulted must complete Ok and give back the identical unit(s) and bit-identical amount(s); within a run two values of one type (and container shape) that differ in unit or amount must not share a serialisation.",
  "samples": samples,
  "simulated_runs": tot("runs") + sum(p["runs"] for p in sysparts),
  "seeded_search_runs": tot("runs"),
  "systematic_placement": {
    "exhaustive_over": "every unit of every serialisable type x {a value, the bare unit} x route {data-model tree, JSON stream} x phase {serialisation, deserialisation} x seam call index 0..15 x event {error, panic caught, hand-over to a second caller thread that runs 5 round trips, re-entrant round trip}, each followed by 5 probe round trips (same unit, another type, the bare unit, the first subject again, the value tree route)",
    "exhaustive": True,
    "per_configuration": [{"configuration": p["configuration"], "plans": p["runs"], "checks_judged": p["ops_judged"], "faults_fired": p["faults_fired"], "thread_switches_inside_an_operation": p["thread_switches_inside_an_operation"], "violations": p["violations"], "wall_s": p["wall_s"]} for p in sysparts],
  },
  "soak_runs": [{"configuration": p["configuration"], "single_thread_histories": p["runs"], "operations_per_history": int(str(p["source"]).split(":")[1]), "round_trips": p["ops"], "checks_judged": p["ops_judged"], "violations": p["violations"], "wall_s": p["wall_s"]} for p in soak],
  "runs_per_hour": int(tot("runs") / max(sum(p["wall_s"] for p in parts), 1e-9) * 3600),
  "round_trip_operations": tot("ops"),
  "serialisations_and_deserialisations_judged": tot("ops_judged"),
  "distinct_subject_x_route_cases": tot("distinct_subject_route_cases"),
  "seams_calls_and_op_boundaries": tot("seams"),
  "thread_switches": tot("thread_switches"),
  "thread_switches_inside_an_operation": tot("thread_switches_inside_an_operation"),
  "allocator_seams": tot("allocator_seams"),
  "thread_switches_at_an_allocation": tot("thread_switches_at_an_allocation"),
  "function_entry_seams": tot("function_entry_seams"),
  "thread_switches_at_a_function_entry": tot("thread_switches_at_a_function_entry"),
  "fault_kinds_fired": {k: fk(k) for k in parts[0]["faults_fired"]} if parts else {},
  "runs_with_a_judged_operation_after_a_fault_on_the_same_thread": tot("runs_with_operation_after_fault_on_same_thread"),
  "stalls_baton_takeovers": tot("stalls"),
  "simulated_time": "none: the code under test reads no clock and has no timer; there is no time to simulate",
  "determinism_recheck": [{"configuration": p["configuration"], **(p["determinism"] or {})} for p in parts],
  "per_configuration": [{k: p[k] for k in ("configuration", "backend", "runs", "ops", "ops_judged", "wall_s", "runs_per_hour", "units_available", "units_used", "types_available")} for p in parts],
  "components": {
    "real_code": ["quantities with feature serde (from /repo working tree): the Serialize / Deserialize impls the #[quantity] macro attaches to every quantity struct and unit enum", "qty-macros (expands the catalogue and the synthetic types)", "serde / serde_derive (the derived impls)", "serde_json (writer, reader, string and value-tree routes)", "fpdec with serde-as-str (decimal back-end: amount <-> string)"],
    "simulated": ["serde Serializer and Deserializer over the data-model tree (seam: scheduling point, fault point, re-entrancy point at every call)", "io::Write behind serde_json::to_writer and io::Read behind serde_json::from_reader (same, plus short writes/reads, Interrupted, truncated input)", "global allocator (scheduling point at every allocation made inside an operation; never a fault point)", "function entries and atomic operations of the library (f64-serde-fnseam configuration only)", "caller threads' scheduling (baton passing; the OS never chooses)", "the callers themselves (seeded workload)"],
    "stubbed": [],
  },
 },
 "assumptions": [
  "serde_json with float_roundtrip parses a float text to the nearest f64 and prints the shortest text that reads back (the property's 'exactly rounding float parser')",
  "the compiler-derived Debug of a fieldless unit enum prints the variant's identifier (used as 'the variant name' for catalogue units; the synthetic types carry declared names)",
  "native tiers switch threads only at seam calls, at allocations inside an operation, at function entries and atomic operations (instrumented configuration) and at operation boundaries",
  "sampling: a clean batch is evidence, not proof",
 ],
 "wall_s": round(wall, 2),
 "violations": tot("violations") + sum(p["violations"] for p in sysparts),
}
json.dump(ev, sys.stdout, indent=1, ensure_ascii=False)
print()
