#!/bin/bash
# RUSTC_WRAPPER for the "function-entry seam" build of the simulator (nightly):
# the library crates under test are compiled with -Zinstrument-mcount, which
# makes every function entry in them (also of functions that get inlined) call
# `mcount` — defined by the simulator (sim/src/exec.rs) as a scheduling point.
# The simulator crate is instrumented too, because the library's generic code
# (`Quantity::fmt`, `Unit::fmt`, `Rate`'s Display) is monomorphised there; the
# runtime crate `fnseam-rt`, which defines `mcount`, and all other crates are
# compiled normally.
rustc=$1; shift
name=""
prev=""
for a in "$@"; do
  [ "$prev" = "--crate-name" ] && name=$a
  prev=$a
done
case "$name" in
  quantities|astronomical_quantities|fpdec|fpdec_core|qsim) exec "$rustc" "$@" -Zinstrument-mcount ;;
  *) exec "$rustc" "$@" ;;
esac
