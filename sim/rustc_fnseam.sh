#!/bin/bash
# RUSTC_WRAPPER for the instrumented ("f64-fnseam") build of the simulator (nightly):
# the library crates under test and the simulator crate (where the library's
# generic `fmt` code is monomorphised) are compiled with ThreadSanitizer's
# compile-time instrumentation but WITHOUT its runtime:
#   -Zsanitizer=thread -Zexternal-clangrt -Cunsafe-allow-abi-mismatch=sanitizer
# The functions that instrumentation calls (`__tsan_func_entry`, `__tsan_atomic*`,
# `__tsan_read*`/`__tsan_write*` ...) are provided by the un-instrumented runtime
# crate sim/fnseam-rt: function entries and every atomic operation become
# scheduling points of the simulator, plain memory accesses are no-ops.
# All other crates are compiled normally.
rustc=$1; shift
name=""
prev=""
for a in "$@"; do
  [ "$prev" = "--crate-name" ] && name=$a
  prev=$a
done
case "$name" in
  quantities|astronomical_quantities|fpdec|fpdec_core|qsim) exec "$rustc" "$@" -Zsanitizer=thread -Zexternal-clangrt -Cunsafe-allow-abi-mismatch=sanitizer ;;
  *) exec "$rustc" "$@" ;;
esac
