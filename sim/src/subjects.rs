//! The values the simulated callers display: every unit of every catalogue
//! quantity, the unit-less amount, the astronomical crate (f64 only) and a few
//! synthetic macro-defined types; plus units on their own and rates.
use core::fmt;

use quantities::prelude::*;
use quantities::{
    acceleration::Acceleration, area::Area, datathroughput::DataThroughput,
    datavolume::DataVolume, duration::Duration, energy::Energy, force::Force,
    frequency::Frequency, length::Length, mass::Mass, power::Power,
    speed::Speed, temperature::Temperature, volume::Volume,
};
use quantities::Rate;
use serde::{Deserialize, Serialize};

use crate::model::{pad_numeric, Spec, WidthUnit};
use crate::specs::render;

// ------------------------------------------------------------------ synthetic

pub mod synth {
    #![allow(dead_code)]
    use quantities::prelude::*;

    /// the type used by the repository's own tests
    #[quantity]
    #[ref_unit(A, "aaa", MEGA)]
    #[unit(B, "b", 0.4)]
    #[unit(C, "c", CENTI, 0.01)]
    pub struct Foo {}

    /// non-ASCII and multi-character symbols, ties in scale
    #[quantity]
    #[ref_unit(Ohm_Meter, "Ω·m")]
    #[unit(Micro_Thing, "µΩ·m", 0.000001)]
    #[unit(Pi_Thing, "𝛑", 3.25)]
    #[unit(Alias_Thing, "ΩM", 1)]
    #[unit(Long_Symbol_Thing, "a rather long symbol", 1000)]
    pub struct Odd {}

    /// no reference unit
    #[quantity]
    #[unit(Pop, "pop")]
    #[unit(Fizz, "fi zz")]
    pub struct Soda {}

    /// a single unit
    #[quantity]
    #[unit(Piece, "pcs")]
    pub struct Count {}

    /// a macro-defined quantity whose reference unit has an empty symbol: its
    /// values display as the bare amount ("just the amount for unit-less values")
    #[quantity]
    #[ref_unit(Each, "")]
    #[unit(Dozen, "dz", 12)]
    pub struct Bare {}
}
use synth::{Bare, Count, Foo, Odd, Soda};

// -------------------------------------------------------------------- amounts

/// An amount as stored in a plan / replay file: exact and back-end specific.
#[derive(Clone, Copy, Debug, PartialEq, Eq, Hash, Serialize, Deserialize)]
pub enum Amt {
    /// IEEE-754 bits of an f64
    F(u64),
    /// coefficient and number of fractional digits of a decimal
    D(i64, u8),
    /// a decimal whose coefficient needs more than 64 bits: high and low half of the
    /// i128 coefficient, number of fractional digits
    X(i64, u64, u8),
}

impl Amt {
    pub fn wide(c: i128, f: u8) -> Amt {
        Amt::X((c >> 64) as i64, c as u64, f)
    }
    pub fn coefficient(hi: i64, lo: u64) -> i128 {
        ((hi as i128) << 64) | lo as i128
    }
}

#[cfg(not(feature = "fpdec"))]
pub mod amt {
    use super::*;
    #[cfg(all(feature = "lib-std", not(feature = "fn-seam")))]
    pub const BACKEND: &str = "f64";
    #[cfg(all(feature = "lib-std", feature = "fn-seam"))]
    pub const BACKEND: &str = "f64-fnseam";
    #[cfg(not(feature = "lib-std"))]
    pub const BACKEND: &str = "f64-nostd";
    pub fn to_amount(a: Amt) -> AmountT {
        match a {
            Amt::F(bits) => f64::from_bits(bits),
            Amt::D(c, f) => c as f64 / 10f64.powi(f as i32),
            Amt::X(hi, lo, f) => Amt::coefficient(hi, lo) as f64 / 10f64.powi(f as i32),
        }
    }
    pub fn simple() -> Amt {
        Amt::F(1.5f64.to_bits())
    }
    pub fn from_milli(v: i64) -> Amt {
        Amt::F((v as f64 / 1000.0).to_bits())
    }
    pub fn is_negative(a: AmountT) -> bool {
        a < 0.0
    }
    pub fn abs(a: AmountT) -> AmountT {
        if a < 0.0 {
            -a
        } else {
            a
        }
    }
    pub fn same(a: AmountT, b: AmountT) -> bool {
        a.to_bits() == b.to_bits()
    }
    pub fn parse(s: &str) -> Option<AmountT> {
        s.parse::<f64>().ok()
    }
    pub fn is_one(a: AmountT) -> bool {
        a == 1.0
    }
    pub fn is_neg_zero(a: AmountT) -> bool {
        a == 0.0 && a.is_sign_negative()
    }
    pub fn gen(r: &mut crate::prng::Prng) -> Amt {
        // the library special-cases 0 (sign) and 1 (rate multiples): their
        // neighbours in the amount type belong to the fixed set
        // ... and the boundaries of the integer types a "whole number" shortcut would go through
        const FIXED: [f64; 38] = [
            2147483648.0, 4294967296.0, 9007199254740992.0, 9007199254740993.0, 9223372036854775808.0,
            18446744073709551616.0, 18446744073709549568.0, 18446744073709555712.0, 1.7014118346046923e38,
            3.402823669209385e38, 4294967295.0, 2147483647.0,
            0.9999999999999999, 1.0000000000000002, 5e-324, 0.9999999999999998,
            0.0, 1.0, 2.0, 7.5, 184.09, 0.1, 0.30000000000000004, 1e-7, 1e21,
            1e300, 5e-324, 2.2250738585072014e-308, f64::MAX, 123456789.12345679,
            0.5, 1.5, 2.5, 0.125, 99.995, 1e15, 4503599627370497.5, 0.045,
        ];
        let v = match r.below(10) {
            0..=4 => *r.pick(&FIXED),
            5 | 6 => (r.below(2_000_000) as f64 - 1_000_000.0) / [1.0, 10.0, 100.0, 1000.0][r.below(4)],
            7 => f64::from_bits(r.next() >> 2 | 0x3000_0000_0000_0000), // wide exponent range, finite
            8 => (r.below(1000) as f64) * 10f64.powi(r.below(40) as i32 - 20),
            _ => -0.0,
        };
        let v = if !v.is_finite() { 1.0 } else { v };
        let v = if r.chance(1, 3) { -v } else { v };
        Amt::F(v.to_bits())
    }
}

#[cfg(feature = "fpdec")]
pub mod amt {
    use super::*;
    use core::str::FromStr;
    use quantities::Decimal;
    pub const BACKEND: &str = "dec";
    pub fn to_amount(a: Amt) -> AmountT {
        match a {
            Amt::D(c, f) => Decimal::new_raw(c as i128, f.min(18)),
            Amt::X(hi, lo, f) => Decimal::new_raw(Amt::coefficient(hi, lo), f.min(18)),
            Amt::F(bits) => {
                // only used when a plan of the other back-end is replayed by mistake
                Decimal::new_raw((f64::from_bits(bits) * 1000.0) as i128, 3)
            }
        }
    }
    pub fn simple() -> Amt {
        Amt::D(15, 1)
    }
    pub fn from_milli(v: i64) -> Amt {
        Amt::D(v, 3)
    }
    pub fn is_negative(a: AmountT) -> bool {
        a < Decimal::ZERO
    }
    pub fn abs(a: AmountT) -> AmountT {
        if a < Decimal::ZERO {
            -a
        } else {
            a
        }
    }
    pub fn same(a: AmountT, b: AmountT) -> bool {
        a == b
    }
    pub fn parse(s: &str) -> Option<AmountT> {
        Decimal::from_str(s).ok()
    }
    pub fn is_one(a: AmountT) -> bool {
        a == Decimal::ONE
    }
    pub fn is_neg_zero(_a: AmountT) -> bool {
        false
    }
    pub fn gen(r: &mut crate::prng::Prng) -> Amt {
        const FIXED: [(i64, u8); 22] = [
            (999999999999999999, 18), (1000000000000000001, 18), (1, 18), (10, 1),
            (0, 0), (1, 0), (2, 0), (75, 1), (18409, 2), (1, 1), (1, 7), (5, 1),
            (15, 1), (25, 1), (125, 3), (99995, 3), (45, 3), (1, 18),
            (123456789123456789, 9), (i64::MAX, 0), (i64::MAX, 18), (1_000_000_000_000_000, 0),
        ];
        if r.chance(1, 12) {
            // coefficients beyond 64 bits (the decimal type holds an i128); kept below
            // 2^100 so that the trusted primitive can still format them with a precision
            let c = (((r.next() >> 28) as i128) << 64) | r.next() as i128;
            let c = match r.below(4) {
                0 => i64::MAX as i128 + 1 + r.below(3) as i128,
                1 => u64::MAX as i128 + r.below(3) as i128,
                _ => c,
            };
            return Amt::wide(if r.chance(1, 3) { -c } else { c }, r.below(19) as u8);
        }
        let (c, f) = match r.below(10) {
            0..=4 => *r.pick(&FIXED),
            5 | 6 => (r.below(2_000_000) as i64 - 1_000_000, r.below(4) as u8),
            7 => ((r.next() >> 1) as i64, r.below(19) as u8),
            _ => (r.below(1000) as i64, r.below(19) as u8),
        };
        let c = if r.chance(1, 3) { c.checked_neg().unwrap_or(c) } else { c };
        Amt::D(c, f)
    }
}

// ------------------------------------------------------------------- subjects

/// What one display operation shows.
#[derive(Clone, Copy, Debug, PartialEq, Eq, Hash, Serialize, Deserialize)]
pub enum What {
    /// a value of quantity type `ty` in its `unit`-th unit
    Qty { ty: usize, unit: usize, amount: Amt },
    /// a unit on its own
    Unit { ty: usize, unit: usize },
    /// a rate of the `pair`-th (term, per) type pair
    Rate { pair: usize, term_unit: usize, term: Amt, per_unit: usize, per: Amt },
    /// two values inside one format string (`form` selects the literal template),
    /// i.e. two `Display::fmt` calls with their own formatters on one sink
    Pair { a_ty: usize, a_unit: usize, a: Amt, b_ty: usize, b_unit: usize, b: Amt, form: usize },
}

/// A displayable thing together with the text the property says it must produce.
pub struct Shown {
    pub value: Box<dyn fmt::Display + Send>,
    /// model text; `None` if the trusted primitive itself failed or panicked
    pub expect: Option<String>,
    /// text obtained if width were counted in bytes instead of characters
    pub expect_bytes: Option<String>,
    pub describe: String,
    /// (amount, symbol, symbol resolves to the stored unit) for quantity values
    pub parts: Option<(AmountT, String, fn(&str, &str) -> bool, String)>,
    /// what `.to_string()` gives when called on the value itself (method-call syntax
    /// on the concrete type, so that an inherent `to_string` would be the one called)
    pub to_string: Option<String>,
}

fn prim(spec: &Spec, v: &dyn fmt::Display) -> Option<String> {
    let r = std::panic::catch_unwind(std::panic::AssertUnwindSafe(|| {
        let mut s = String::new();
        render(&mut s, spec.fill, spec.align, spec.plus, spec.alt, spec.zero, spec.width, spec.prec, v)
            .ok()
            .map(|_| s)
    }));
    r.ok().flatten()
}

fn resolves<Q: Quantity>(symbol: &str, unit_name: &str) -> bool {
    // "the symbol resolves to the stored unit": symbols are unique within every
    // type displayed here (the whole catalogue, the astronomical crate, the
    // synthetic types), so the lookup must give back exactly the stored unit
    match Q::unit_from_symbol(symbol) {
        Some(u) => u.name() == unit_name,
        None => false,
    }
}

/// Symbols of the synthetic types as declared in `synth` above, in the order
/// in which the units are iterated (non-decreasing scale, reference unit first
/// among scale one, declaration order for other ties; name order without a
/// reference unit): known here independently of the generated code.
pub const SYNTH_DECLARED: &[(&str, &[&str])] = &[
    ("synth::Foo", &["c", "b", "aaa"]),
    ("synth::Odd", &["µΩ·m", "Ω·m", "ΩM", "𝛑", "a rather long symbol"]),
    ("synth::Soda", &["fi zz", "pop"]),
    ("synth::Count", &["pcs"]),
    ("synth::Bare", &["", "dz"]),
];

/// The symbol a unit must display: for the synthetic types the declared one,
/// otherwise what the library's `symbol()` reports (whether *that* is the
/// published symbol is property C07, not C15).
fn display_symbol(type_name: &str, unit_index: usize, reported: String) -> String {
    SYNTH_DECLARED
        .iter()
        .find(|d| d.0 == type_name)
        .and_then(|d| d.1.get(unit_index))
        .map(|s| s.to_string())
        .unwrap_or(reported)
}

/// Harness self-check: the declared tables cover exactly the units the types have.
pub fn declared_tables_fit() -> bool {
    SYNTH_DECLARED.iter().all(|d| TABLE.iter().any(|e| e.name == d.0 && (e.n_units)() == d.1.len()))
}

fn qty_shown<Q>(ty: usize, unit: usize, amount: Amt, spec: &Spec) -> Shown
where
    Q: Quantity + fmt::Display + Send + 'static,
{
    let n = Q::iter_units().count();
    let u = Q::iter_units().nth(unit % n).unwrap();
    let a = amt::to_amount(amount);
    let q = Q::new(a, u);
    let symbol = display_symbol(TABLE[ty].name, unit % n, u.symbol());
    let describe = format!("{:?} '{}' of {}", a, symbol, TABLE[ty].name);
    let (expect, expect_bytes) = if symbol.is_empty() {
        let e = prim(spec, &a);
        (e.clone(), e)
    } else {
        let body_spec = Spec { prec: spec.prec, ..Spec::default() };
        match prim(&body_spec, &amt::abs(a)) {
            Some(body) => {
                let rest = format!("{} {}", body, symbol);
                (
                    Some(pad_numeric(spec, amt::is_negative(a), &rest, WidthUnit::Chars)),
                    Some(pad_numeric(spec, amt::is_negative(a), &rest, WidthUnit::Bytes)),
                )
            }
            None => (None, None),
        }
    };
    Shown {
        value: Box::new(q),
        expect,
        expect_bytes,
        describe,
        parts: Some((a, symbol, resolves::<Q>, u.name())),
        to_string: None,
    }
}

fn unit_shown<Q>(ty: usize, unit: usize, spec: &Spec) -> Shown
where
    Q: Quantity,
    Q::UnitType: Send + 'static,
{
    let n = Q::iter_units().count();
    let u = Q::iter_units().nth(unit % n).unwrap();
    let symbol = display_symbol(TABLE[ty].name, unit % n, u.symbol());
    let e = prim(spec, &symbol);
    Shown {
        value: Box::new(u),
        expect: e.clone(),
        expect_bytes: e,
        describe: format!("unit '{}' of {}", symbol, TABLE[ty].name),
        parts: None,
        to_string: None,
    }
}

pub struct TypeEntry {
    pub name: &'static str,
    pub n_units: fn() -> usize,
    qty: fn(usize, usize, Amt, &Spec) -> Shown,
    unit: fn(usize, usize, &Spec) -> Shown,
    /// `.to_string()` of the value, called on the concrete type
    to_string: fn(usize, Amt) -> String,
}

fn count_units<Q: Quantity>() -> usize {
    Q::iter_units().count()
}

macro_rules! entry {
    ($name:literal, $q:ty) => {
        TypeEntry {
            name: $name,
            n_units: count_units::<$q>,
            qty: qty_shown::<$q>,
            unit: unit_shown::<$q>,
            to_string: |unit, a| {
                let n = <$q as Quantity>::iter_units().count();
                let u = <$q as Quantity>::iter_units().nth(unit % n).unwrap();
                let q: $q = <$q as Quantity>::new(amt::to_amount(a), u);
                #[allow(clippy::to_string_in_format_args)]
                q.to_string()
            },
        }
    };
}

#[cfg(feature = "astro")]
use astronomical_quantities as aq;

pub static TABLE: &[TypeEntry] = &[
    entry!("Length", Length),
    entry!("Mass", Mass),
    entry!("Duration", Duration),
    entry!("Area", Area),
    entry!("Volume", Volume),
    entry!("Speed", Speed),
    entry!("Acceleration", Acceleration),
    entry!("Force", Force),
    entry!("Energy", Energy),
    entry!("Power", Power),
    entry!("Frequency", Frequency),
    entry!("DataVolume", DataVolume),
    entry!("DataThroughput", DataThroughput),
    entry!("Temperature", Temperature),
    entry!("AmountT", AmountT),
    entry!("synth::Foo", Foo),
    entry!("synth::Odd", Odd),
    entry!("synth::Soda", Soda),
    entry!("synth::Count", Count),
    entry!("synth::Bare", Bare),
    #[cfg(feature = "astro")]
    entry!("astro::Mass", aq::Mass),
    #[cfg(feature = "astro")]
    entry!("astro::Length", aq::Length),
    #[cfg(feature = "astro")]
    entry!("astro::Duration", aq::Duration),
    #[cfg(feature = "astro")]
    entry!("astro::Speed", aq::Speed),
];

// ---------------------------------------------------------------------- rates

fn rate_shown<TQ, PQ>(tu: usize, ta: Amt, pu: usize, pa: Amt, name: &str) -> Shown
where
    TQ: Quantity + Send + 'static,
    PQ: Quantity + Send + 'static,
    TQ::UnitType: Send,
    PQ::UnitType: Send,
{
    let tunit = TQ::iter_units().nth(tu % TQ::iter_units().count()).unwrap();
    let punit = PQ::iter_units().nth(pu % PQ::iter_units().count()).unwrap();
    let (t, p) = (amt::to_amount(ta), amt::to_amount(pa));
    let r = Rate::<TQ, PQ>::new(t, tunit, p, punit);
    let (ts, ps) = (tunit.symbol(), punit.symbol());
    // "a rate displays as 'term / per', omitting a per-multiple of one"
    let term = if ts.is_empty() { format!("{}", t) } else { format!("{} {}", t, ts) };
    let per = if ps.is_empty() {
        format!("{}", p)
    } else if amt::is_one(p) {
        ps.clone()
    } else {
        format!("{} {}", p, ps)
    };
    let e = format!("{} / {}", term, per);
    #[allow(clippy::to_string_in_format_args)]
    let rate_text = std::panic::catch_unwind(std::panic::AssertUnwindSafe(|| r.to_string())).ok();
    Shown {
        to_string: rate_text,
        value: Box::new(r),
        expect: Some(e.clone()),
        expect_bytes: Some(e),
        describe: format!("rate {:?} '{}' per {:?} '{}' ({})", t, ts, p, ps, name),
        parts: None,
    }
}

pub struct RateEntry {
    pub name: &'static str,
    make: fn(usize, Amt, usize, Amt, &str) -> Shown,
    pub per_is_unitless: bool,
}

pub static RATES: &[RateEntry] = &[
    RateEntry { name: "Length per Duration", make: rate_shown::<Length, Duration>, per_is_unitless: false },
    RateEntry { name: "Mass per Volume", make: rate_shown::<Mass, Volume>, per_is_unitless: false },
    RateEntry { name: "AmountT per Duration", make: rate_shown::<AmountT, Duration>, per_is_unitless: false },
    RateEntry { name: "Temperature per AmountT", make: rate_shown::<Temperature, AmountT>, per_is_unitless: true },
    RateEntry { name: "Odd per Count", make: rate_shown::<Odd, Count>, per_is_unitless: false },
    RateEntry { name: "DataVolume per Soda", make: rate_shown::<DataVolume, Soda>, per_is_unitless: false },
];

// ---------------------------------------------------------------------- pairs

struct PairDisplay {
    a: Box<dyn fmt::Display + Send>,
    b: Box<dyn fmt::Display + Send>,
    form: usize,
}

pub const PAIR_FORMS: usize = 4;

fn pair_specs(form: usize) -> (Spec, Spec, [&'static str; 3]) {
    let d = Spec::default();
    match form % PAIR_FORMS {
        0 => (d, d, ["", "", ""]),
        1 => (d, d, ["<", "|", ">"]),
        2 => (Spec { align: 3, width: Some(12), prec: Some(2), ..d }, Spec { align: 1, plus: true, width: Some(10), ..d }, ["", " and ", ""]),
        _ => (Spec { zero: true, width: Some(8), prec: Some(1), ..d }, d, ["", "/", "."]),
    }
}

impl fmt::Display for PairDisplay {
    fn fmt(&self, f: &mut fmt::Formatter<'_>) -> fmt::Result {
        match self.form % PAIR_FORMS {
            0 => write!(f, "{}{}", self.a, self.b),
            1 => write!(f, "<{}|{}>", self.a, self.b),
            2 => write!(f, "{:>12.2} and {:<+10}", self.a, self.b),
            _ => write!(f, "{:08.1}/{}.", self.a, self.b),
        }
    }
}

// ------------------------------------------------------------------ interface

pub fn shown(what: &What, spec: &Spec) -> Shown {
    match *what {
        What::Qty { ty, unit, amount } => {
            let ty = ty % TABLE.len();
            let mut sh = (TABLE[ty].qty)(ty, unit, amount, spec);
            if spec.is_plain() {
                let f = TABLE[ty].to_string;
                sh.to_string = std::panic::catch_unwind(move || f(unit, amount)).ok();
            }
            sh
        }
        What::Unit { ty, unit } => {
            let ty = ty % TABLE.len();
            (TABLE[ty].unit)(ty, unit, spec)
        }
        What::Rate { pair, term_unit, term, per_unit, per } => {
            let e = &RATES[pair % RATES.len()];
            (e.make)(term_unit, term, per_unit, per, e.name)
        }
        What::Pair { a_ty, a_unit, a, b_ty, b_unit, b, form } => {
            let (sa, sb, lit) = pair_specs(form);
            let x = shown(&What::Qty { ty: a_ty, unit: a_unit, amount: a }, &sa);
            let y = shown(&What::Qty { ty: b_ty, unit: b_unit, amount: b }, &sb);
            let join = |p: &Option<String>, q: &Option<String>| match (p, q) {
                (Some(p), Some(q)) => Some(format!("{}{}{}{}{}", lit[0], p, lit[1], q, lit[2])),
                _ => None,
            };
            Shown {
                expect: join(&x.expect, &y.expect),
                expect_bytes: join(&x.expect_bytes, &y.expect_bytes),
                describe: format!("pair [{}] [{}] in template {}", x.describe, y.describe, form % PAIR_FORMS),
                value: Box::new(PairDisplay { a: x.value, b: y.value, form }),
                parts: None,
                to_string: None,
            }
        }
    }
}

pub fn total_units() -> usize {
    TABLE.iter().map(|e| (e.n_units)()).sum()
}
