//! Executes a serialisation plan (property C17): real OS threads of which
//! exactly one runs at a time (the scheduler of `exec.rs`), each performing
//! round trips through the serde seam.
//!
//! Oracle (every clause judges only what the statement speaks about):
//!   * a serialisation whose seam never faulted must complete `Ok`;
//!   * a bare unit must serialise as its variant name;
//!   * deserialising that result through a seam that never faulted must
//!     complete `Ok` and give back the identical unit(s) and bit-identical
//!     amount(s) — whatever happened before on that thread or concurrently;
//!   * within a run, two values of one type that differ in unit or amount must
//!     not have the same serialisation.
//! Not judged: what a faulted serialisation left behind, whether a faulted
//! operation returned `Err`.
use std::cell::RefCell;
use std::panic::{catch_unwind, AssertUnwindSafe};
use std::rc::Rc;
use std::sync::Arc;

use serde::{Deserialize, Serialize};

use crate::exec::{in_sim, with_library_seams, Sched, Violation};
use crate::sio::IoCounts;
use crate::snode::{Node, Seam, SeamCell};
use crate::splan::{Route, SFault, SOp, SPlan, SWhat};
use crate::ssubj::{subject, Form, IoParams, Subject};

#[derive(Clone, Debug, Default, Serialize, Deserialize)]
pub struct SRunStats {
    pub ops: u64,
    pub judged: u64,
    pub seams: u64,
    pub alloc_seams: u64,
    pub fn_seams: u64,
    pub switches: u64,
    pub switches_inside_op: u64,
    pub switches_at_alloc: u64,
    pub switches_at_fn_entry: u64,
    pub ser_error_fired: u64,
    pub ser_panic_fired: u64,
    pub de_error_fired: u64,
    pub de_panic_fired: u64,
    pub de_eof_fired: u64,
    pub nested_fired: u64,
    pub short_io: u64,
    pub interrupted_io: u64,
    pub ops_after_fault_same_thread: u64,
    pub stalls: u64,
    pub trace_hash: u64,
    pub nontrivial: bool,
}

#[derive(Clone, Debug, Serialize, Deserialize)]
pub struct SRunResult {
    pub violations: Vec<Violation>,
    pub stats: SRunStats,
    pub log: Vec<String>,
}

#[derive(Clone, Debug, PartialEq)]
enum Outcome<T> {
    Ok(T),
    Err(String),
    Panic(String),
}

fn caught<T>(f: impl FnOnce() -> Result<T, String>) -> Outcome<T> {
    match catch_unwind(AssertUnwindSafe(f)) {
        Ok(Ok(v)) => Outcome::Ok(v),
        Ok(Err(e)) => Outcome::Err(e),
        Err(p) => Outcome::Panic(
            p.downcast_ref::<&str>().map(|s| s.to_string()).or_else(|| p.downcast_ref::<String>().cloned()).unwrap_or_else(|| "?".into()),
        ),
    }
}

fn route_name(r: Route, io_seed: u64) -> String {
    match r {
        Route::Node => "node".into(),
        Route::JsonStream => format!("json-stream{}{}", if io_seed & 2 != 0 { "-pretty" } else { "" }, if io_seed != 0 { "-perturbed" } else { "" }),
        Route::JsonString => "json-string".into(),
        Route::JsonValue => "json-value".into(),
    }
}

/// key of the space in which serialisations must be injective
fn form_space(r: Route, io_seed: u64) -> &'static str {
    match r {
        Route::Node => "node",
        Route::JsonStream if io_seed & 2 != 0 => "text-pretty",
        Route::JsonStream | Route::JsonString => "text",
        Route::JsonValue => "value",
    }
}

/// The rendition of a bare unit the property prescribes.
fn model_unit_form(route: Route, variant: &str) -> Form {
    match route {
        Route::Node => Form::Node(Node::Str(variant.to_string())),
        Route::JsonStream | Route::JsonString => Form::Text(format!("\"{}\"", variant).into_bytes()),
        Route::JsonValue => Form::Value(serde_json::Value::String(variant.to_string())),
    }
}

fn is_variant_name(form: &Form, variant: &str) -> bool {
    match form {
        Form::Node(Node::UnitVariant { variant: v, .. }) => v == variant,
        Form::Node(Node::Str(s)) => s == variant,
        Form::Text(t) => t.as_slice() == format!("\"{}\"", variant).as_bytes(),
        Form::Value(serde_json::Value::String(s)) => s == variant,
        _ => false,
    }
}

struct Judged {
    judged: u64,
    violations: Vec<(String, String, String, String)>, // kind, subject, expected, actual
    /// (type, space, form, ident) of a serialisation judged faithful so far
    injective: Option<(String, String, String, String)>,
    line: String,
}

/// A whole round trip without any seam (nested / re-entrant use).
fn plain_round_trip(what: &SWhat, cell: &SeamCell<'_>) -> Judged {
    let subj = subject(what);
    let counts = IoCounts::default();
    let io = IoParams { seed: 0, counts: &counts };
    let mut j = Judged { judged: 1, violations: Vec::new(), injective: None, line: String::new() };
    let ser = caught(|| subj.ser(Route::JsonString, cell, &io));
    match &ser {
        Outcome::Ok(form) => {
            j.injective = Some((subj.type_name(), "text".into(), form.show(), subj.ident()));
            if let Some(vn) = subj.unit_variant() {
                if !is_variant_name(form, &vn) {
                    j.violations.push(("unit_not_variant_name".into(), subj.describe(), format!("\"{}\"", vn), form.show()));
                }
            }
            j.judged += 1;
            match caught(|| subj.de(Route::JsonString, form, cell, &io)) {
                Outcome::Ok(id) if id == subj.ident() => {}
                Outcome::Ok(id) => j.violations.push(("round_trip".into(), subj.describe(), subj.ident(), format!("{} (from {})", id, form.show()))),
                Outcome::Err(e) => j.violations.push(("de_err_without_fault".into(), subj.describe(), subj.ident(), format!("Err({}) from {}", e, form.show()))),
                Outcome::Panic(m) => j.violations.push(("de_panic_without_fault".into(), subj.describe(), subj.ident(), format!("panic: {}", m))),
            }
        }
        Outcome::Err(e) => j.violations.push(("ser_err_without_fault".into(), subj.describe(), "Ok".into(), format!("Err({})", e))),
        Outcome::Panic(m) => j.violations.push(("ser_panic_without_fault".into(), subj.describe(), "Ok".into(), format!("panic: {}", m))),
    }
    j.line = format!("nested[{} -> {:?}]", subj.describe(), ser.clone_show());
    j
}

impl Outcome<Form> {
    fn clone_show(&self) -> String {
        match self {
            Outcome::Ok(f) => format!("Ok {}", f.show()),
            Outcome::Err(e) => format!("Err {}", e),
            Outcome::Panic(m) => format!("Panic {}", m),
        }
    }
}

/// Arms the seam with the operation's re-entrant round trip, if it belongs to this phase.
fn arm_nested<'a>(cell: &SeamCell<'a>, phase: u8, op: &SOp, out: &Rc<RefCell<Vec<Judged>>>) {
    if let Some((p, k, what)) = &op.nested {
        if *p == phase {
            let out = Rc::clone(out);
            let what = what.clone();
            let mut s = cell.borrow_mut();
            let (sched, me): (&'a Sched, usize) = (s.sched, s.me);
            s.nested_at = Some(*k);
            // the hook needs a cell for the (seam-less) route's signature only
            s.nested_hook = Some(Box::new(move || {
                let dummy = RefCell::new(Seam::new(sched, me, None));
                let j = plain_round_trip(&what, &dummy);
                out.borrow_mut().push(j);
            }));
        }
    }
}

/// A thread-local object of the caller whose destructor performs a round trip at
/// thread exit; initialised when the caller thread starts, i.e. before any
/// thread-local the library may create, so those are destroyed first.
struct ExitHook(Option<Box<dyn FnOnce()>>);
impl Drop for ExitHook {
    fn drop(&mut self) {
        if let Some(f) = self.0.take() {
            f();
        }
    }
}
thread_local! {
    static EXIT_HOOK: RefCell<ExitHook> = const { RefCell::new(ExitHook(None)) };
}

struct OpRecord {
    line: String,
    violations: Vec<Violation>,
    judged: u64,
    ser_fired: Option<SFault>,
    de_fired: Option<SFault>,
    nested: bool,
    short: u64,
    interrupted: u64,
    injective: Vec<(String, String, String, String)>,
}

/// One round trip, made where the operation says: in the ordinary course of the
/// thread, or by a `Drop` that runs while the thread unwinds from a panic of the
/// caller (caught by the caller; `std::thread::panicking()` is true meanwhile).
fn run_op(sched: &Sched, me: usize, idx: usize, op: &SOp, alloc_seams: bool, lean: bool) -> OpRecord {
    if op.mode != 1 {
        return run_op_here(sched, me, idx, op, alloc_seams, lean);
    }
    struct Guard<'a> {
        sched: &'a Sched,
        me: usize,
        idx: usize,
        op: &'a SOp,
        alloc_seams: bool,
        lean: bool,
        out: &'a mut Option<OpRecord>,
    }
    impl Drop for Guard<'_> {
        fn drop(&mut self) {
            *self.out = Some(run_op_here(self.sched, self.me, self.idx, self.op, self.alloc_seams, self.lean));
        }
    }
    let mut out = None;
    let _ = catch_unwind(AssertUnwindSafe(|| {
        let _g = Guard { sched, me, idx, op, alloc_seams, lean, out: &mut out };
        panic!("simulated panic of the caller: a value is serialised while the thread unwinds");
    }));
    out.expect("the round trip did not run")
}

fn run_op_here(sched: &Sched, me: usize, idx: usize, op: &SOp, alloc_seams: bool, lean: bool) -> OpRecord {
    let subj: Box<dyn Subject> = in_sim(|| subject(&op.what));
    let counts = IoCounts::default();
    let io = IoParams { seed: op.io_seed, counts: &counts };
    let nested_out: Rc<RefCell<Vec<Judged>>> = Rc::new(RefCell::new(Vec::new()));
    let rname = format!("{}{}", route_name(op.route, op.io_seed), if op.binary { "-binary" } else { "" });
    let mut rec = OpRecord {
        line: String::new(),
        violations: Vec::new(),
        judged: 0,
        ser_fired: None,
        de_fired: None,
        nested: false,
        short: 0,
        interrupted: 0,
        injective: Vec::new(),
    };
    let mut push = |rec: &mut OpRecord, nested: bool, v: (String, String, String, String)| {
        rec.violations.push(Violation { kind: v.0, thread: me, op: idx, nested, subject: v.1, spec: rname.clone(), expected: v.2, actual: v.3 })
    };
    let arm = |cell: &SeamCell<'_>, phase: u8| arm_nested(cell, phase, op, &nested_out);

    // ---- phase 0: serialisation
    let variant = subj.unit_variant();
    let mut ser_line = String::from("from-model");
    let form: Option<Form> = if op.from_model && variant.is_some() {
        Some(model_unit_form(op.route, variant.as_deref().unwrap()))
    } else {
        let cell = RefCell::new(Seam::new(sched, me, op.ser_fault));
        cell.borrow_mut().binary = op.binary;
        arm(&cell, 0);
        let out = with_library_seams(sched, me, alloc_seams, || caught(|| subj.ser(op.route, &cell, &io)));
        let s = cell.borrow();
        rec.ser_fired = s.fired;
        if !lean {
            ser_line = format!("{} calls={} fault={:?}", out.clone_show(), s.calls, s.fired);
        }
        drop(s);
        if rec.ser_fired.is_none() {
            rec.judged += 1;
            match out {
                Outcome::Ok(form) => {
                    let mut faithful = true;
                    if let Some(vn) = &variant {
                        if !is_variant_name(&form, vn) {
                            faithful = false;
                            push(&mut rec, false, ("unit_not_variant_name".into(), subj.describe(), format!("\"{}\"", vn), form.show()));
                        }
                    }
                    if faithful && !lean {
                        rec.injective.push((subj.type_name(), form_space(op.route, op.io_seed).into(), form.show(), subj.ident()));
                    }
                    Some(form)
                }
                Outcome::Err(e) => {
                    push(&mut rec, false, ("ser_err_without_fault".into(), subj.describe(), "Ok".into(), format!("Err({})", e)));
                    None
                }
                Outcome::Panic(m) => {
                    push(&mut rec, false, ("ser_panic_without_fault".into(), subj.describe(), "Ok".into(), format!("panic: {}", m)));
                    None
                }
            }
        } else {
            None
        }
    };

    // ---- phase 1: deserialisation of what the serialisation produced
    let mut de_line = String::from("-");
    if let Some(form) = &form {
        let cell = RefCell::new(Seam::new(sched, me, op.de_fault));
        cell.borrow_mut().binary = op.binary;
        arm(&cell, 1);
        let out = with_library_seams(sched, me, alloc_seams, || caught(|| subj.de(op.route, form, &cell, &io)));
        let s = cell.borrow();
        rec.de_fired = s.fired;
        if !lean {
            de_line = format!("{:?} calls={} fault={:?}", out, s.calls, s.fired);
        }
        drop(s);
        if rec.de_fired.is_none() {
            rec.judged += 1;
            match out {
                Outcome::Ok(id) if id == subj.ident() => {}
                Outcome::Ok(id) => push(&mut rec, false, ("round_trip".into(), subj.describe(), subj.ident(), format!("{} (from {})", id, form.show()))),
                Outcome::Err(e) => push(&mut rec, false, ("de_err_without_fault".into(), subj.describe(), subj.ident(), format!("Err({}) from {}", e, form.show()))),
                Outcome::Panic(m) => push(&mut rec, false, ("de_panic_without_fault".into(), subj.describe(), subj.ident(), format!("panic: {}", m))),
            }
        }
    }
    let mut nested_line = String::new();
    for j in nested_out.borrow_mut().drain(..) {
        rec.nested = true;
        rec.judged += j.judged;
        for v in j.violations {
            push(&mut rec, true, v);
        }
        rec.injective.extend(j.injective);
        nested_line = format!(" {}", j.line);
    }
    rec.short = counts.short.get();
    rec.interrupted = counts.interrupted.get();
    if !lean {
        rec.line = format!(
            "t{} op{}{} {} via {} ser[{}] de[{}]{}",
            me, idx, ["", "(unwinding)", "(at thread exit)"][op.mode.min(2) as usize], subj.describe(), rname, ser_line, de_line, nested_line
        );
    }
    rec
}

pub fn execute(plan: &SPlan) -> SRunResult {
    execute_mode(plan, false)
}

pub fn execute_mode(plan: &SPlan, free: bool) -> SRunResult {
    let n = plan.threads.len();
    let sched = Arc::new(Sched::new(n, plan.sched.clone(), free));
    if !free {
        let mut st = sched.st.lock().unwrap();
        let first = sched.choose(&mut st, None).unwrap_or(0);
        st.current = first;
    }
    let late: Arc<std::sync::Mutex<Vec<(usize, OpRecord)>>> = Arc::new(std::sync::Mutex::new(Vec::new()));
    let alloc_seams = plan.alloc_seams;
    let lean = plan.lean;
    let repeat = plan.repeat.max(1);
    let mut handles = Vec::new();
    for (me, ops) in plan.threads.iter().cloned().enumerate() {
        let sched = Arc::clone(&sched);
        let late = Arc::clone(&late);
        handles.push(std::thread::spawn(move || {
            // the caller's thread-local object exists before the library has done anything on this thread
            EXIT_HOOK.with(|h| h.borrow_mut().0 = None);
            sched.start(me);
            let mut recs = Vec::new();
            let mut lean_sum = (0u64, 0u64);
            let mut kinds: Vec<(String, u32)> = Vec::new();
            let at_exit = if !free && !lean && ops.last().map(|o| o.mode == 2).unwrap_or(false) { ops.len() - 1 } else { usize::MAX };
            for rep in 0..repeat {
                for (i, op) in ops.iter().enumerate() {
                    if i == at_exit {
                        continue;
                    }
                    sched.seam(me, false);
                    let rec = run_op(&sched, me, rep as usize * ops.len() + i, op, alloc_seams, lean);
                    if lean {
                        // a soak run keeps counts and violations only
                        lean_sum.0 += rec.judged;
                        lean_sum.1 += 1;
                        // ... of every kind the first few
                        let mut keep = false;
                        for v in &rec.violations {
                            match kinds.iter_mut().find(|k: &&mut (String, u32)| k.0 == v.kind) {
                                Some(k) => {
                                    k.1 += 1;
                                    keep |= k.1 <= 4;
                                }
                                None => {
                                    kinds.push((v.kind.clone(), 1));
                                    keep = true;
                                }
                            }
                        }
                        if keep {
                            recs.push(rec);
                        }
                    } else {
                        recs.push(rec);
                    }
                }
            }
            if at_exit != usize::MAX {
                // the last round trip is made by the thread-local's destructor when the thread
                // exits; the thread keeps its place in the schedule until then
                let (sched, op) = (Arc::clone(&sched), ops[at_exit].clone());
                EXIT_HOOK.with(|h| {
                    h.borrow_mut().0 = Some(Box::new(move || {
                        sched.seam(me, false);
                        let rec = run_op(&sched, me, at_exit, &op, alloc_seams, false);
                        late.lock().unwrap().push((me, rec));
                        sched.finish(me);
                    }))
                });
            } else {
                sched.finish(me);
            }
            (recs, lean_sum)
        }));
    }
    let mut stats = SRunStats::default();
    let mut violations = Vec::new();
    let mut log = Vec::new();
    // (type, space, form) -> (ident, thread, op, subject-ish)
    let mut seen: std::collections::BTreeMap<(String, String, String), (String, usize, usize)> = std::collections::BTreeMap::new();
    for (t, h) in handles.into_iter().enumerate() {
        let (mut recs, lean_sum) = h.join().expect("simulated caller thread died outside an operation");
        {
            // the round trip made at thread exit (the thread has been joined, so it has happened)
            let mut l = late.lock().unwrap();
            while let Some(pos) = l.iter().position(|(th, _)| *th == t) {
                recs.push(l.remove(pos).1);
            }
        }
        stats.judged += lean_sum.0;
        stats.ops += lean_sum.1;
        let mut faulted_before = false;
        for (i, r) in recs.into_iter().enumerate() {
            if !lean {
                stats.ops += 1;
                stats.judged += r.judged;
            }
            if faulted_before {
                stats.ops_after_fault_same_thread += 1;
            }
            match r.ser_fired {
                Some(SFault::Panic) => stats.ser_panic_fired += 1,
                Some(_) => stats.ser_error_fired += 1,
                None => {}
            }
            match r.de_fired {
                Some(SFault::Panic) => stats.de_panic_fired += 1,
                Some(SFault::Eof) => stats.de_eof_fired += 1,
                Some(SFault::Error) => stats.de_error_fired += 1,
                None => {}
            }
            if r.ser_fired.is_some() || r.de_fired.is_some() {
                faulted_before = true;
            }
            if r.nested {
                stats.nested_fired += 1;
            }
            stats.short_io += r.short;
            stats.interrupted_io += r.interrupted;
            violations.extend(r.violations);
            for (ty, space, form, ident) in r.injective {
                match seen.get(&(ty.clone(), space.clone(), form.clone())) {
                    Some((other, ot, oo)) if *other != ident => violations.push(Violation {
                        kind: "not_injective".into(),
                        thread: t,
                        op: i,
                        nested: false,
                        subject: format!("{} of {}", ident, ty),
                        spec: space.clone(),
                        expected: format!("a serialisation different from that of {} (thread {}, op {})", other, ot, oo),
                        actual: form.clone(),
                    }),
                    Some(_) => {}
                    None => {
                        seen.insert((ty, space, form), (ident, t, i));
                    }
                }
            }
            if !lean {
                log.push(r.line);
            }
        }
    }
    let st = sched.st.lock().unwrap();
    stats.seams = st.seams;
    stats.switches = st.switches;
    stats.switches_inside_op = st.switches_inside_op;
    stats.alloc_seams = st.alloc_seams;
    stats.switches_at_alloc = st.switches_at_alloc;
    stats.fn_seams = st.fn_seams;
    stats.switches_at_fn_entry = st.switches_at_fn_entry;
    stats.stalls = st.stalls;
    stats.trace_hash = crate::prng::fnv64(&st.trace);
    stats.nontrivial = stats.switches_inside_op > 0
        || stats.ser_error_fired + stats.ser_panic_fired + stats.de_error_fired + stats.de_panic_fired + stats.de_eof_fired + stats.nested_fired > 0;
    SRunResult { violations, stats, log }
}
