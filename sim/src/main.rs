//! qsim — deterministic simulation of caller threads displaying quantities
//! into fault-injecting sinks (property C15 of quantities.rs).
//!
//!   qsim gen <seed>                      print the plan of one seed
//!   qsim exec                            execute the JSON plan list on stdin, in order, in this process
//!   qsim worker <base> <first> <count> [known-kind,...]
//!                                        generate + execute runs first..first+count of base seed
//!   qsim batch --seed S --runs N [--jobs J] --tier T --part FILE --replay-dir DIR [--known FILE]
//!   qsim replay <file>                   re-execute a replay file in this (fresh) process
mod exec;
mod model;
mod plan;
mod prng;
mod specs;
mod subjects;
#[cfg(feature = "serde")]
mod sexec;
#[cfg(feature = "serde")]
mod sio;
#[cfg(feature = "serde")]
mod smain;
#[cfg(feature = "serde")]
mod snode;
#[cfg(feature = "serde")]
mod splan;
#[cfg(feature = "serde")]
mod ssubj;

use std::collections::BTreeSet;
use std::io::{Read, Write};
use std::process::{Command, Stdio};
use std::time::Instant;

use serde::{Deserialize, Serialize};
use serde_json::json;

use exec::{execute, RunResult, RunStats, Violation};
use plan::Plan;
use subjects::{amt, What};

#[global_allocator]
static GLOBAL: exec::SeamAlloc = exec::SeamAlloc;

/// The i-th plan of a source: "rnd" = seeded search, "sys" = systematic placement.
fn make_plan(src: &str, base: u64, i: u64) -> Plan {
    if src == "sys" {
        plan::systematic(i)
    } else if let Some(ops) = src.strip_prefix("soak:") {
        plan::soak(i, ops.parse().unwrap_or(1000))
    } else {
        plan::generate(run_seed(base, i))
    }
}

pub(crate) fn run_seed(base: u64, i: u64) -> u64 {
    let mut p = prng::Prng::new(base.wrapping_mul(0x2545_F491_4F6C_DD1D) ^ i.wrapping_mul(0xD6E8_FEB8_6659_FD93));
    p.next() >> 1
}

#[derive(Default, Serialize, Deserialize)]
struct WorkerOut {
    runs: u64,
    stats_sum: RunStats,
    nontrivial_runs: u64,
    trace_hashes: Vec<u64>,
    subject_spec_hashes: Vec<u64>,
    /// (type, unit) pairs displayed as a value or as a unit
    units_shown: Vec<(usize, usize)>,
    fault_then_judged_runs: u64,
    loghash: u64,
    samples: Vec<serde_json::Value>,
    known: Vec<(String, u64, Option<Violation>)>,
    /// first run with an unlisted violation: (index, plan, violations)
    failure: Option<(u64, Plan, Vec<Violation>)>,
}

fn add(a: &mut RunStats, b: &RunStats) {
    a.ops += b.ops;
    a.judged += b.judged;
    a.seams += b.seams;
    a.switches += b.switches;
    a.switches_inside_op += b.switches_inside_op;
    a.alloc_seams += b.alloc_seams;
    a.switches_at_alloc += b.switches_at_alloc;
    a.fn_seams += b.fn_seams;
    a.switches_at_fn_entry += b.switches_at_fn_entry;
    a.sink_error_fired += b.sink_error_fired;
    a.sink_reject_fired += b.sink_reject_fired;
    a.sink_panic_fired += b.sink_panic_fired;
    a.nested_fired += b.nested_fired;
    a.ops_after_fault_same_thread += b.ops_after_fault_same_thread;
    a.stalls += b.stalls;
}

pub(crate) fn quiet_panics() {
    std::panic::set_hook(Box::new(|_| {}));
}

/// Index of the run (or plan) this process is executing; `u64::MAX` = none. A
/// watchdog reports a run that does not finish: the scheduler resolves ordinary
/// blocking on a parked thread's lock within milliseconds (stall take-over), so a
/// run that makes no progress for many seconds is blocked for good — the code under
/// test has deadlocked (possible only in a changed tree, e.g. a non-re-entrant lock
/// held while calling into the caller's sink, taken again by a re-entrant display).
pub(crate) static PROGRESS: std::sync::atomic::AtomicU64 = std::sync::atomic::AtomicU64::new(u64::MAX);

pub(crate) fn hang_secs(default: u64) -> u64 {
    std::env::var("VERIF_HANG_SECS").ok().and_then(|s| s.parse().ok()).unwrap_or(default)
}

pub(crate) fn hang_violation(secs: u64) -> Violation {
    Violation {
        kind: "hang".into(),
        thread: 0,
        op: 0,
        nested: false,
        subject: "the run as a whole".into(),
        spec: String::new(),
        expected: "every operation on a healthy sink / serializer completes".into(),
        actual: format!("no progress for {secs} s: the code under test blocks for good (deadlock)"),
    }
}

/// Calls `on_hang(index)` (which reports and exits) if PROGRESS stays at the same
/// index for `secs` seconds.
pub(crate) fn watchdog(secs: u64, on_hang: impl Fn(u64) + Send + 'static) {
    std::thread::spawn(move || {
        use std::sync::atomic::Ordering::Relaxed;
        let mut last = PROGRESS.load(Relaxed);
        let mut since = Instant::now();
        loop {
            std::thread::sleep(std::time::Duration::from_millis(500));
            let now = PROGRESS.load(Relaxed);
            if now != last {
                last = now;
                since = Instant::now();
            } else if now != u64::MAX && since.elapsed().as_secs() >= secs {
                on_hang(now);
                std::process::exit(3);
            }
        }
    });
}

fn worker(src: &str, base: u64, first: u64, count: u64, known: &[String]) -> WorkerOut {
    quiet_panics();
    {
        let (src, secs) = (src.to_string(), hang_secs(30));
        watchdog(secs, move |i| {
            // report the run that hangs as this worker's failure; its plan is a function of (source, seed, index)
            let out = WorkerOut { runs: i - first, failure: Some((i, make_plan(&src, base, i), vec![hang_violation(secs)])), ..WorkerOut::default() };
            println!("{}", serde_json::to_string(&out).unwrap());
            std::process::exit(0);
        });
    }
    let mut out = WorkerOut::default();
    let mut traces = BTreeSet::new();
    let mut subj = BTreeSet::new();
    let mut units = BTreeSet::new();
    let mut lh: u64 = 0xcbf2_9ce4_8422_2325;
    for i in first..first + count {
        PROGRESS.store(i, std::sync::atomic::Ordering::Relaxed);
        let plan = make_plan(src, base, i);
        let res = execute(&plan);
        out.runs += 1;
        add(&mut out.stats_sum, &res.stats);
        if res.stats.nontrivial {
            out.nontrivial_runs += 1;
            if traces.len() < 200_000 {
                traces.insert(res.stats.trace_hash ^ prng::fnv64(serde_json::to_string(&plan.threads).unwrap().as_bytes()));
            }
        }
        if res.stats.ops_after_fault_same_thread > 0 {
            out.fault_then_judged_runs += 1;
        }
        for t in &plan.threads {
            for op in t {
                match op.what {
                    What::Qty { ty, unit, .. } | What::Unit { ty, unit } => {
                        units.insert((ty, unit));
                    }
                    What::Pair { a_ty, a_unit, b_ty, b_unit, .. } => {
                        units.insert((a_ty, a_unit));
                        units.insert((b_ty, b_unit));
                    }
                    _ => {}
                }
                if subj.len() < 400_000 {
                    subj.insert(prng::fnv64(serde_json::to_string(&(&op.what, &op.spec)).unwrap().as_bytes()));
                }
            }
        }
        for l in &res.log {
            lh = prng::fnv64(&[&lh.to_le_bytes()[..], l.as_bytes()].concat());
        }
        if out.samples.len() < 2 && res.stats.nontrivial && res.stats.switches_inside_op > 0 {
            out.samples.push(json!({"seed": plan.seed, "threads": plan.threads.len(), "log": res.log, "stats": res.stats}));
        }
        let mut unlisted = Vec::new();
        for v in res.violations {
            if known.contains(&v.kind) {
                match out.known.iter_mut().find(|k| k.0 == v.kind) {
                    Some(k) => k.1 += 1,
                    None => out.known.push((v.kind.clone(), 1, Some(v))),
                }
            } else {
                unlisted.push(v);
            }
        }
        if !unlisted.is_empty() {
            out.failure = Some((i, plan, unlisted));
            break;
        }
    }
    PROGRESS.store(u64::MAX, std::sync::atomic::Ordering::Relaxed); // disarm the watchdog
    out.trace_hashes = traces.into_iter().collect();
    out.subject_spec_hashes = subj.into_iter().collect();
    out.units_shown = units.into_iter().collect();
    out.loghash = lh;
    out
}

// ------------------------------------------------------------ child execution

#[derive(Serialize, Deserialize)]
struct ExecOut {
    results: Vec<RunResult>,
}

fn exec_stdin() -> i32 {
    quiet_panics();
    let mut s = String::new();
    std::io::stdin().read_to_string(&mut s).unwrap();
    let plans: Vec<Plan> = match serde_json::from_str(&s) {
        Ok(p) => p,
        Err(e) => {
            eprintln!("bad plan list: {e}");
            return 2;
        }
    };
    let secs = hang_secs(10);
    watchdog(secs, move |_| {
        let hung = RunResult { violations: vec![hang_violation(secs)], stats: RunStats::default(), log: vec!["the run hangs".into()] };
        println!("{}", serde_json::to_string(&ExecOut { results: vec![hung] }).unwrap());
        std::process::exit(0);
    });
    let mut results = Vec::new();
    for (i, p) in plans.iter().enumerate() {
        PROGRESS.store(i as u64, std::sync::atomic::Ordering::Relaxed);
        results.push(execute(p));
    }
    PROGRESS.store(u64::MAX, std::sync::atomic::Ordering::Relaxed);
    println!("{}", serde_json::to_string(&ExecOut { results }).unwrap());
    0
}

/// Executes `plans` in order in a fresh process; returns the violations of the last plan.
fn exec_child(plans: &[Plan]) -> Option<Vec<Violation>> {
    exec_child_full(plans).map(|r| r.violations)
}

fn exec_child_full(plans: &[Plan]) -> Option<RunResult> {
    let exe = std::env::current_exe().ok()?;
    let mut ch = Command::new(exe).arg("exec").stdin(Stdio::piped()).stdout(Stdio::piped()).stderr(Stdio::null()).spawn().ok()?;
    ch.stdin.take()?.write_all(serde_json::to_string(plans).ok()?.as_bytes()).ok()?;
    let o = ch.wait_with_output().ok()?;
    let out: ExecOut = serde_json::from_slice(&o.stdout).ok()?;
    out.results.into_iter().last()
}

fn fails_with(plans: &[Plan], kind: &str, known: &[String]) -> bool {
    match exec_child(plans) {
        Some(vs) => vs.iter().any(|v| v.kind == kind && !known.contains(&v.kind)),
        None => false,
    }
}

// ------------------------------------------------------------------ minimiser

fn simplify_what(w: &What) -> Vec<What> {
    let mut out = Vec::new();
    if let What::Qty { ty, unit, amount } = *w {
        if amount != amt::simple() {
            out.push(What::Qty { ty, unit, amount: amt::simple() });
        }
        if unit != 0 {
            out.push(What::Qty { ty, unit: 0, amount });
        }
    }
    out
}

/// Greedy delta debugging over the plan list; every candidate runs in a fresh process.
fn minimise(mut plans: Vec<Plan>, kind: &str, known: &[String]) -> (Vec<Plan>, u64) {
    let mut tried = 0u64;
    // minimisation is best effort within a wall-clock budget: in a changed tree
    // with blocking shared state every candidate can cost seconds of stalls
    let started = Instant::now();
    let budget = std::time::Duration::from_secs(
        std::env::var("VERIF_MINIMISE_SECS").ok().and_then(|s| s.parse().ok()).unwrap_or(90),
    );
    let mut check = |cand: &Vec<Plan>, tried: &mut u64| {
        if started.elapsed() > budget {
            return false;
        }
        *tried += 1;
        fails_with(cand, kind, known)
    };
    // 1. history: drop earlier runs
    if plans.len() > 1 {
        let last = vec![plans.last().unwrap().clone()];
        if check(&last, &mut tried) {
            plans = last;
        } else {
            let mut i = 0;
            while i + 1 < plans.len() {
                let mut c = plans.clone();
                c.remove(i);
                if check(&c, &mut tried) {
                    plans = c;
                } else {
                    i += 1;
                }
            }
        }
    }
    // 2. shrink every remaining plan
    let mut changed = true;
    while changed && tried < 3000 && started.elapsed() <= budget {
        changed = false;
        for pi in 0..plans.len() {
            // drop threads
            let mut t = 0;
            while t < plans[pi].threads.len() && plans[pi].threads.len() > 1 {
                let mut c = plans.clone();
                c[pi].threads.remove(t);
                if check(&c, &mut tried) {
                    plans = c;
                    changed = true;
                } else {
                    t += 1;
                }
            }
            // drop ops: first in halving chunks (long histories), then one by one
            for t in 0..plans[pi].threads.len() {
                let mut size = plans[pi].threads[t].len() / 2;
                while size >= 2 {
                    let mut start = 0;
                    while start + size <= plans[pi].threads[t].len() {
                        let mut c = plans.clone();
                        c[pi].threads[t].drain(start..start + size);
                        if !c[pi].threads.iter().all(|x| x.is_empty()) && check(&c, &mut tried) {
                            plans = c;
                            changed = true;
                        } else {
                            start += size;
                        }
                    }
                    size /= 2;
                }
            }
            for t in 0..plans[pi].threads.len() {
                let mut o = 0;
                while o < plans[pi].threads[t].len() {
                    let mut c = plans.clone();
                    c[pi].threads[t].remove(o);
                    if c[pi].threads.iter().all(|x| x.is_empty()) {
                        o += 1;
                        continue;
                    }
                    if check(&c, &mut tried) {
                        plans = c;
                        changed = true;
                    } else {
                        o += 1;
                    }
                }
            }
            // drop annotations, simplify specs and values
            for t in 0..plans[pi].threads.len() {
                for o in 0..plans[pi].threads[t].len() {
                    let cur = plans[pi].threads[t][o].clone();
                    let mut cands = Vec::new();
                    if cur.fault.is_some() {
                        let mut x = cur.clone();
                        x.fault = None;
                        cands.push(x);
                    }
                    if cur.nested.is_some() {
                        let mut x = cur.clone();
                        x.nested = None;
                        cands.push(x);
                    }
                    if cur.mode != 0 {
                        let mut x = cur.clone();
                        x.mode = 0;
                        cands.push(x);
                    }
                    if let Some((k, f)) = cur.fault {
                        if k > 0 {
                            let mut x = cur.clone();
                            x.fault = Some((0, f));
                            cands.push(x);
                        }
                    }
                    for (name, f) in [
                        ("width", (|s: &mut model::Spec| s.width = None) as fn(&mut model::Spec)),
                        ("prec", |s| s.prec = None),
                        ("plus", |s| s.plus = false),
                        ("alt", |s| s.alt = false),
                        ("zero", |s| s.zero = false),
                        ("align", |s| {
                            s.align = 0;
                            s.fill = 0
                        }),
                        ("fill", |s| s.fill = 0),
                    ] {
                        let _ = name;
                        let mut x = cur.clone();
                        f(&mut x.spec);
                        if x != cur {
                            cands.push(x);
                        }
                        if let Some((k, w, mut s)) = cur.nested.clone() {
                            let before = s;
                            f(&mut s);
                            if s != before {
                                let mut y = cur.clone();
                                y.nested = Some((k, w, s));
                                cands.push(y);
                            }
                        }
                    }
                    for w in simplify_what(&cur.what) {
                        let mut x = cur.clone();
                        x.what = w;
                        cands.push(x);
                    }
                    if let Some((k, w, s)) = &cur.nested {
                        for w2 in simplify_what(w) {
                            let mut x = cur.clone();
                            x.nested = Some((*k, w2, *s));
                            cands.push(x);
                        }
                    }
                    for x in cands {
                        // re-read: earlier candidates may have been accepted
                        let mut c = plans.clone();
                        let mut merged = x.clone();
                        let now = &plans[pi].threads[t][o];
                        if *now != cur {
                            // apply only if still a change relative to the current op
                            if merged == *now {
                                continue;
                            }
                            merged = x;
                        }
                        c[pi].threads[t][o] = merged;
                        if c != plans && check(&c, &mut tried) {
                            plans = c;
                            changed = true;
                            break;
                        }
                    }
                }
            }
            if plans[pi].repeat > 1 {
                let rp = plans[pi].repeat;
                for r in [1, rp / 2, rp - rp / 4, rp - 1] {
                    if r >= 1 && r < plans[pi].repeat {
                        let mut c = plans.clone();
                        c[pi].repeat = r;
                        if check(&c, &mut tried) {
                            plans = c;
                            changed = true;
                        }
                    }
                }
            }
            if plans[pi].alloc_seams {
                let mut c = plans.clone();
                c[pi].alloc_seams = false;
                if check(&c, &mut tried) {
                    plans = c;
                    changed = true;
                }
            }
            // calm the schedule: all-zero decisions, then a shorter stream
            if plans[pi].sched.iter().any(|&b| b != 0) {
                let mut c = plans.clone();
                c[pi].sched = vec![0];
                if check(&c, &mut tried) {
                    plans = c;
                    changed = true;
                } else {
                    for k in 0..plans[pi].sched.len() {
                        if plans[pi].sched[k] != 0 {
                            let mut c = plans.clone();
                            c[pi].sched[k] = 0;
                            if check(&c, &mut tried) {
                                plans = c;
                                changed = true;
                            }
                        }
                    }
                }
            }
        }
    }
    (plans, tried)
}

// ---------------------------------------------------------------------- batch

#[derive(Serialize, Deserialize)]
struct Replay {
    property: String,
    backend: String,
    base_seed: u64,
    run_index: u64,
    kind: String,
    violation: Violation,
    minimised: bool,
    candidates_tried: u64,
    /// what the last plan did when the file was written: one line per operation
    /// (thread, op, value, format specification, outcome, sink writes, fault, text)
    #[serde(default)]
    trace: Vec<String>,
    /// plans to execute in order in one fresh process; the last one violates
    plans: Vec<Plan>,
    replay: String,
}

fn arg(args: &[String], name: &str) -> Option<String> {
    args.iter().position(|a| a == name).and_then(|i| args.get(i + 1).cloned())
}

fn known_kinds(path: Option<&str>) -> Vec<(String, String)> {
    let mut out = Vec::new();
    if let Some(p) = path {
        if let Ok(s) = std::fs::read_to_string(p) {
            if let Ok(v) = serde_json::from_str::<serde_json::Value>(&s) {
                for f in v["findings"].as_array().cloned().unwrap_or_default() {
                    if f["property"] == "C15" {
                        if let (Some(k), Some(d)) = (f["kind"].as_str(), f["what_fails"].as_str()) {
                            out.push((k.to_string(), d.to_string()));
                        }
                    }
                }
            }
        }
    }
    out
}

fn batch(args: &[String]) -> i32 {
    let t0 = Instant::now();
    if !subjects::declared_tables_fit() {
        eprintln!("HARNESS ERROR: the synthetic types do not have the number of units their declarations say");
        return 2;
    }
    let seed: u64 = arg(args, "--seed").and_then(|s| s.parse().ok()).unwrap_or(0);
    let src = arg(args, "--source").unwrap_or_else(|| "rnd".into());
    let mut runs: u64 = arg(args, "--runs").and_then(|s| s.parse().ok()).unwrap_or(1000);
    if src == "sys" {
        runs = plan::sys_total(); // the bounded space is always enumerated completely
    }
    if src.starts_with("soak:") {
        runs = plan::soak_total(); // one long single-thread history per type, each in a process of its own
    }
    let jobs: u64 = arg(args, "--jobs").and_then(|s| s.parse().ok()).unwrap_or(16).max(1);
    let tier = arg(args, "--tier").unwrap_or_else(|| "quick".into());
    let part = arg(args, "--part").unwrap_or_else(|| "part.json".into());
    let replay_dir = arg(args, "--replay-dir").unwrap_or_else(|| ".".into());
    let known = known_kinds(arg(args, "--known").as_deref());
    let known_list: Vec<String> = known.iter().map(|k| k.0.clone()).collect();
    let exe = std::env::current_exe().unwrap();

    // --chunk K: many short-lived worker processes of K runs each ("cold" processes: state a
    // process accumulates on first use of a type is young in every one of them); default: one
    // long-lived worker per job
    let chunk = arg(args, "--chunk").and_then(|s| s.parse::<u64>().ok()).filter(|&k| k > 0).unwrap_or((runs + jobs - 1) / jobs);
    let spawn = |first: u64, n: u64| {
        Command::new(&exe)
            .args(["worker", &src, &seed.to_string(), &first.to_string(), &n.to_string(), &known_list.join(",")])
            .stdout(Stdio::piped())
            .stderr(Stdio::inherit())
            .spawn()
            .expect("spawn worker")
    };
    let mut pending = std::collections::VecDeque::new();
    let mut first = 0;
    while first < runs {
        let n = chunk.min(runs - first);
        pending.push_back((first, n));
        first += n;
    }
    let mut running = std::collections::VecDeque::new();
    let mut stop_spawning = false;
    while running.len() < jobs as usize {
        match pending.pop_front() {
            Some((f, n)) => running.push_back((f, n, spawn(f, n))),
            None => break,
        }
    }
    let recheck_n = if src.starts_with("soak:") {
        1
    } else if arg(args, "--chunk").is_some() {
        runs.min(300)
    } else {
        runs.min(2000)
    };
    let mut total = RunStats::default();
    let (mut nruns, mut nontrivial_runs, mut fault_then) = (0u64, 0u64, 0u64);
    let mut traces = BTreeSet::new();
    let mut subj = BTreeSet::new();
    let mut units = BTreeSet::new();
    let mut samples = Vec::new();
    let mut known_seen: Vec<(String, u64, Option<Violation>)> = Vec::new();
    let mut failures = Vec::new();
    let mut first_chunk_out: Option<WorkerOut> = None;
    while let Some((first, n, ch)) = running.pop_front() {
        let o = ch.wait_with_output().expect("worker");
        // once a violation has been found no further workers are started (in a changed tree
        // every one of them may cost a hang time-out); those already running are collected
        if !stop_spawning {
            if let Some((f2, n2)) = pending.pop_front() {
                running.push_back((f2, n2, spawn(f2, n2)));
            }
        }
        let w: WorkerOut = match serde_json::from_slice(&o.stdout) {
            Ok(w) => w,
            Err(e) => {
                eprintln!("HARNESS ERROR: worker {first}+{n} produced no result ({e}), status {:?}", o.status);
                return 2;
            }
        };
        nruns += w.runs;
        nontrivial_runs += w.nontrivial_runs;
        fault_then += w.fault_then_judged_runs;
        add(&mut total, &w.stats_sum);
        traces.extend(w.trace_hashes.iter().copied());
        subj.extend(w.subject_spec_hashes.iter().copied());
        units.extend(w.units_shown.iter().copied());
        if samples.len() < 3 {
            samples.extend(w.samples.iter().cloned().take(1));
        }
        for k in &w.known {
            match known_seen.iter_mut().find(|x| x.0 == k.0) {
                Some(x) => x.1 += k.1,
                None => known_seen.push(k.clone()),
            }
        }
        if let Some(f) = &w.failure {
            failures.push((first, f.clone()));
            stop_spawning = true;
        }
        if first == 0 {
            first_chunk_out = Some(w);
        }
    }
    // determinism re-check: the first seeds executed twice more, each in a
    // fresh process; the hashes cover every operation line of every run
    let mut deterministic = serde_json::Value::Null;
    if first_chunk_out.is_some() && failures.is_empty() {
        let a = worker_hash_prefix(&exe, &src, seed, recheck_n, &known_list);
        let b = worker_hash_prefix(&exe, &src, seed, recheck_n, &known_list);
        deterministic = json!({"runs_rechecked": recheck_n, "identical": a.is_some() && a == b});
        if a.is_none() || a != b {
            eprintln!("HARNESS ERROR: two executions of the same {recheck_n} seeds differ");
            return 2;
        }
    }

    let mut exit = 0;
    let mut violations_reported = 0;
    for (k, _d) in &known {
        if let Some(x) = known_seen.iter().find(|x| &x.0 == k) {
            let v = x.2.as_ref().unwrap();
            println!(
                "KNOWN-FINDING: property=C15 kind={} occurrences={} e.g. {} displayed with {} gives {:?} (expected {:?}) [{}]",
                k, x.1, v.subject, v.spec, v.actual, v.expected, amt::BACKEND
            );
        }
    }
    failures.sort_by_key(|f| f.0 + (f.1).0);
    if let Some((_first, (idx, plan, vs))) = failures.into_iter().next() {
        let v = vs[0].clone();
        // reproduce alone in a fresh process; if the run depends on residue of
        // earlier runs of its worker, replay the worker's prefix as history
        let mut plans = vec![plan.clone()];
        let mut reproduced = fails_with(&plans, &v.kind, &known_list);
        if !reproduced {
            let chunk_first = (idx / chunk) * chunk;
            plans = (chunk_first..=idx).map(|i| make_plan(&src, seed, i)).collect();
            reproduced = fails_with(&plans, &v.kind, &known_list);
        }
        let (plans, tried, minimised) = if reproduced {
            let (p, t) = minimise(plans, &v.kind, &known_list);
            (p, t, true)
        } else {
            (plans, 0, false)
        };
        let final_run = exec_child_full(&plans);
        let trace = final_run.as_ref().map(|r| r.log.clone()).unwrap_or_default();
        let final_v = final_run
            .and_then(|r| r.violations.into_iter().find(|x| x.kind == v.kind))
            .unwrap_or(v.clone());
        let path = if src.starts_with("soak:") {
            format!("{}/C15-{}-soak-{}.json", replay_dir, amt::BACKEND, idx)
        } else if src == "sys" {
            format!("{}/C15-{}-systematic-{}.json", replay_dir, amt::BACKEND, idx)
        } else {
            format!("{}/C15-{}-seed{}-run{}.json", replay_dir, amt::BACKEND, seed, idx)
        };
        let rp = Replay {
            property: "C15".into(),
            backend: amt::BACKEND.into(),
            base_seed: seed,
            run_index: idx,
            kind: v.kind.clone(),
            violation: final_v.clone(),
            minimised,
            candidates_tried: tried,
            trace,
            plans,
            replay: format!("/verif/check C15 --replay {}", path),
        };
        std::fs::create_dir_all(&replay_dir).ok();
        std::fs::write(&path, serde_json::to_string_pretty(&rp).unwrap()).expect("write replay");
        println!(
            "violation: {} [{}] {} displayed with {}: expected {:?}, got {:?} (thread {}, op {}{}; reproduced in fresh process: {}; minimised with {} candidates)",
            final_v.kind, amt::BACKEND, final_v.subject, final_v.spec, final_v.expected, final_v.actual,
            final_v.thread, final_v.op, if final_v.nested { ", nested" } else { "" }, reproduced, tried
        );
        println!("VIOLATION property=C15 replay={}", path);
        violations_reported = 1;
        exit = 1;
    }

    let wall = t0.elapsed().as_secs_f64();
    let partv = json!({
        "backend": amt::BACKEND,
        "source": src,
        "tier": tier,
        "seed": seed,
        "runs": nruns,
        "nontrivial_runs": nontrivial_runs,
        "distinct_nontrivial_runs": traces.len(),
        "distinct_subject_spec_cases": subj.len(),
        "runs_with_display_after_fault_on_same_thread": fault_then,
        "ops": total.ops,
        "ops_judged": total.judged,
        "seams": total.seams,
        "thread_switches": total.switches,
        "thread_switches_inside_a_display": total.switches_inside_op,
        "allocator_seams": total.alloc_seams,
        "thread_switches_at_an_allocation_inside_library_code": total.switches_at_alloc,
        "function_entry_seams": total.fn_seams,
        "thread_switches_at_a_function_entry_inside_library_code": total.switches_at_fn_entry,
        "faults_fired": {"sink_error": total.sink_error_fired, "sink_rejects_one_write": total.sink_reject_fired, "sink_panic_caught": total.sink_panic_fired, "reentrant_display_from_sink": total.nested_fired},
        "stalls": total.stalls,
        "determinism": deterministic,
        "known_findings_seen": known_seen.iter().map(|k| json!({"kind": k.0, "occurrences": k.1})).collect::<Vec<_>>(),
        "violations": violations_reported,
        "samples": samples,
        "units_available": subjects::total_units(),
        "units_shown": units.len(),
        "types_available": subjects::TABLE.len(),
        "wall_s": wall,
        "runs_per_hour": (nruns as f64 / wall * 3600.0) as u64,
    });
    std::fs::write(&part, serde_json::to_string_pretty(&partv).unwrap()).expect("write part");
    println!(
        "[{}{}] runs={} ops={} judged={} seams={} switches_in_display={} faults(err/panic/nested)={}/{}/{} distinct_nontrivial_runs={} wall={:.1}s",
        amt::BACKEND, if src == "sys" { " systematic" } else if src.starts_with("soak:") { " soak" } else { "" }, nruns, total.ops, total.judged, total.seams, total.switches_inside_op,
        total.sink_error_fired, total.sink_panic_fired, total.nested_fired, traces.len(), wall
    );
    exit
}

fn worker_hash_prefix(exe: &std::path::Path, src: &str, seed: u64, n: u64, known: &[String]) -> Option<u64> {
    let o = Command::new(exe)
        .args(["worker", src, &seed.to_string(), "0", &n.to_string(), &known.join(",")])
        .stderr(Stdio::null())
        .output()
        .ok()?;
    serde_json::from_slice::<WorkerOut>(&o.stdout).ok().map(|w| w.loghash)
}

fn replay(path: &str) -> i32 {
    quiet_panics();
    let s = match std::fs::read_to_string(path) {
        Ok(s) => s,
        Err(e) => {
            eprintln!("cannot read {path}: {e}");
            return 2;
        }
    };
    let rp: Replay = match serde_json::from_str(&s) {
        Ok(r) => r,
        Err(e) => {
            eprintln!("bad replay file: {e}");
            return 2;
        }
    };
    if rp.backend != amt::BACKEND {
        eprintln!("replay file is for back-end {}, this binary is {}", rp.backend, amt::BACKEND);
        return 2;
    }
    {
        let (secs, kind, path) = (hang_secs(10), rp.kind.clone(), path.to_string());
        watchdog(secs, move |_| {
            println!("  the run hangs: no progress for {secs} s");
            if kind == "hang" {
                println!("violation reproduced: hang");
                println!("VIOLATION property=C15 replay={}", path);
                std::process::exit(1);
            }
            println!("HARNESS ERROR: the replay hangs, the recorded violation was {kind}");
            std::process::exit(2);
        });
    }
    let mut last = None;
    for (i, p) in rp.plans.iter().enumerate() {
        PROGRESS.store(i as u64, std::sync::atomic::Ordering::Relaxed);
        last = Some(execute(p));
    }
    PROGRESS.store(u64::MAX, std::sync::atomic::Ordering::Relaxed);
    let res = last.unwrap();
    for l in &res.log {
        println!("  {l}");
    }
    match res.violations.iter().find(|v| v.kind == rp.kind) {
        Some(v) => {
            println!(
                "violation reproduced: {} {} displayed with {}: expected {:?}, got {:?}",
                v.kind, v.subject, v.spec, v.expected, v.actual
            );
            println!("VIOLATION property=C15 replay={}", path);
            1
        }
        None => {
            println!("not reproduced: no {} violation in this tree", rp.kind);
            0
        }
    }
}

fn main() {
    #[cfg(feature = "fn-seam")]
    fnseam_rt::set_hook(exec::fn_seam_hook);
    let args: Vec<String> = std::env::args().collect();
    #[cfg(feature = "serde")]
    if let Some(code) = smain::main(&args) {
        std::process::exit(code);
    }
    let code = match args.get(1).map(String::as_str) {
        Some("gen") => {
            let s: u64 = args.get(2).and_then(|s| s.parse().ok()).unwrap_or(0);
            println!("{}", serde_json::to_string_pretty(&plan::generate(s)).unwrap());
            0
        }
        Some("exec") => exec_stdin(),
        Some("worker") => {
            // worker <rnd|sys> <base> <first> <count> [known-kind,...]
            let g = |i: usize| args.get(i).and_then(|s| s.parse::<u64>().ok()).unwrap_or(0);
            let known: Vec<String> =
                args.get(6).map(|s| s.split(',').filter(|x| !x.is_empty()).map(String::from).collect()).unwrap_or_default();
            let out = worker(args.get(2).map(String::as_str).unwrap_or("rnd"), g(3), g(4), g(5), &known);
            println!("{}", serde_json::to_string(&out).unwrap());
            0
        }
        Some("free") => {
            // free-running executions (meant for `cargo miri run`): all caller
            // threads of a run are live at once and the interpreter's seeded
            // scheduler preempts them anywhere, also between two sink writes
            quiet_panics();
            let g = |i: usize| args.get(i).and_then(|s| s.parse::<u64>().ok()).unwrap_or(0);
            let known: Vec<String> =
                args.get(5).map(|s| s.split(',').filter(|x| !x.is_empty()).map(String::from).collect()).unwrap_or_default();
            let (mut ops, mut bad) = (0u64, 0u64);
            for i in g(3)..g(3) + g(4) {
                let plan = plan::generate_with(run_seed(g(2), i), true);
                let res = exec::execute_mode(&plan, true);
                ops += res.stats.ops;
                for v in res.violations.iter().filter(|v| !known.contains(&v.kind)) {
                    bad += 1;
                    println!("FREE-VIOLATION run={} seed={} {} {} {}: expected {:?} got {:?}", i, plan.seed, v.kind, v.subject, v.spec, v.expected, v.actual);
                }
            }
            println!("FREE runs={} ops={} violations={}", g(4), ops, bad);
            if bad > 0 { 1 } else { 0 }
        }
        Some("batch") => batch(&args),
        Some("replay") => replay(args.get(2).map(String::as_str).unwrap_or("")),
        _ => {
            eprintln!("usage: qsim gen|exec|worker|batch|replay ...");
            2
        }
    };
    std::process::exit(code);
}
