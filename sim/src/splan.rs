//! Plans for the serialisation simulation (property C17). A plan is one run
//! written out in full: caller threads, the round-trip operations each
//! performs (value or unit, route through the serde seam, injected faults,
//! re-entrant round trips) and the stream of scheduling decisions. A plan is a
//! pure function of its seed.
use serde::{Deserialize, Serialize};

use crate::prng::Prng;
use crate::ssubj::STABLE;
use crate::subjects::{amt, Amt};

#[derive(Clone, Copy, Debug, PartialEq, Eq, Hash, Serialize, Deserialize)]
pub enum SFault {
    /// the seam call fails from this call on (serializer / deserializer error,
    /// writer or reader returning an I/O error)
    Error,
    /// the seam call panics (the caller catches it and carries on)
    Panic,
    /// reader only: the stream ends here (truncated input); elsewhere like Error
    Eof,
}

#[derive(Clone, Copy, Debug, PartialEq, Eq, Hash, Serialize, Deserialize)]
pub enum Route {
    /// the simulator's own `Serializer` / `Deserializer` over the data-model tree:
    /// every call the library makes into it is a seam call
    Node,
    /// `serde_json::to_writer` into a simulated `io::Write`, `from_reader` from a
    /// simulated `io::Read`: every write / read is a seam call; short writes and
    /// reads, `ErrorKind::Interrupted`
    JsonStream,
    /// `serde_json::to_string` / `from_str`
    JsonString,
    /// `serde_json::to_value` / `from_value` (the JSON value tree)
    JsonValue,
}

/// What one operation round-trips.
#[derive(Clone, Debug, PartialEq, Eq, Hash, Serialize, Deserialize)]
pub enum SWhat {
    Qty { ty: usize, unit: usize, amount: Amt },
    Unit { ty: usize, unit: usize },
    /// several values of one type in one container on one serializer:
    /// form 0 = Vec<Q>, 1 = (Q, Q), 2 = (Q, Unit), 3 = Option<Q>, 4 = map name -> Q,
    /// 5 = a user struct with the value flattened into it, 6 = a user struct with value fields and Vec<Vec<Q>>,
    /// 7 = a value one level below a flattened struct, 8 = an untagged enum of value / Vec of values,
    /// 9 = a flattened map name -> Q (in 7-9 serde buffers the input in its private Content tree)
    Group { ty: usize, items: Vec<(usize, Amt)>, form: usize },
}

#[derive(Clone, Debug, PartialEq, Eq, Hash, Serialize, Deserialize)]
pub struct SOp {
    pub what: SWhat,
    pub route: Route,
    /// fault at the k-th seam call of the serialisation
    pub ser_fault: Option<(usize, SFault)>,
    /// fault at the k-th seam call of the deserialisation
    pub de_fault: Option<(usize, SFault)>,
    /// at the k-th seam call of phase 0 (serialisation) / 1 (deserialisation) the
    /// seam itself round-trips another value on the same thread
    pub nested: Option<(u8, usize, SWhat)>,
    /// seed of the benign stream perturbations (short writes / reads,
    /// Interrupted, buffer sizes, pretty printing); 0 = none
    pub io_seed: u64,
    /// units only: do not serialise; deserialise the rendition the property
    /// prescribes ("units serialise as their variant names")
    pub from_model: bool,
    /// where the caller performs the round trip: 0 = in the ordinary course of the
    /// thread; 1 = in a `Drop` that runs while the thread unwinds from a (caught)
    /// panic of the caller; 2 = in the destructor of a thread-local object at thread
    /// exit (last operation of a thread only, otherwise like 0)
    #[serde(default)]
    pub mode: u8,
    /// tree route only: the simulator's serializer and deserializer present themselves as a
    /// self-describing *binary* format (`is_human_readable() == false`)
    #[serde(default)]
    pub binary: bool,
}

#[derive(Clone, Debug, PartialEq, Eq, Hash, Serialize, Deserialize)]
pub struct SPlan {
    pub seed: u64,
    pub backend: String,
    pub threads: Vec<Vec<SOp>>,
    pub sched: Vec<u8>,
    #[serde(default)]
    pub alloc_seams: bool,
    /// a soak run: hundreds of thousands of operations; no per-operation log lines
    /// and no injectivity bookkeeping are kept
    #[serde(default)]
    pub lean: bool,
    /// every thread executes its operation list this many times over (0 = once)
    #[serde(default)]
    pub repeat: u64,
}

fn neighbour(a: Amt, r: &mut Prng) -> Amt {
    match a {
        Amt::F(bits) => {
            let b = if r.chance(1, 2) { bits.wrapping_add(1) } else { bits.wrapping_sub(1) };
            if f64::from_bits(b).is_finite() {
                Amt::F(b)
            } else {
                a
            }
        }
        Amt::D(c, f) => Amt::D(if r.chance(1, 2) { c.saturating_add(1) } else { c.saturating_sub(1) }, f),
        Amt::X(hi, lo, f) => Amt::wide(Amt::coefficient(hi, lo) + if r.chance(1, 2) { 1 } else { -1 }, f),
    }
}

fn gen_amount(r: &mut Prng, pool: &mut Vec<Amt>) -> Amt {
    if !pool.is_empty() && r.chance(1, 3) {
        return *r.pick(pool);
    }
    let a = if !pool.is_empty() && r.chance(1, 4) {
        // values that differ in the last place must not collide
        let p = *r.pick(pool);
        neighbour(p, r)
    } else {
        amt::gen(r)
    };
    pool.push(a);
    a
}

fn gen_what(r: &mut Prng, types: &[usize], pool: &mut Vec<Amt>, allow_group: bool) -> SWhat {
    let ty = *r.pick(types);
    let n = (STABLE[ty].n_units)();
    let unit = r.below(n);
    match r.below(10) {
        0 | 1 => SWhat::Unit { ty, unit },
        2 if allow_group => {
            let form = r.below(crate::ssubj::GROUP_FORMS);
            let k = match form {
                0 => r.below(4),
                1 | 2 => 2,
                3 => r.below(2),
                5 => 1,
                _ => 1 + r.below(3),
            };
            let items = (0..k).map(|_| (r.below(n), gen_amount(r, pool))).collect();
            SWhat::Group { ty, items, form }
        }
        _ => SWhat::Qty { ty, unit, amount: gen_amount(r, pool) },
    }
}

fn gen_route(r: &mut Prng) -> Route {
    match r.below(8) {
        0..=2 => Route::Node,
        3..=5 => Route::JsonStream,
        6 => Route::JsonString,
        _ => Route::JsonValue,
    }
}

fn gen_fault(r: &mut Prng, err: bool, pan: bool, route: Route, de: bool) -> Option<(usize, SFault)> {
    let k = if route == Route::JsonStream && r.chance(1, 2) { r.below(48) } else { r.below(9) };
    if err && r.chance(1, 5) {
        let kind = if de && route == Route::JsonStream && r.chance(1, 2) { SFault::Eof } else { SFault::Error };
        Some((k, kind))
    } else if pan && r.chance(1, 7) {
        Some((k, SFault::Panic))
    } else {
        None
    }
}

pub fn generate(seed: u64) -> SPlan {
    generate_with(seed, false)
}

pub fn generate_with(seed: u64, lite: bool) -> SPlan {
    let mut r = Prng::new(seed ^ 0x5e7d_e5e7_0c17_0c17);
    let (sw_err, sw_pan, sw_nested, sw_switch, sw_io) =
        (r.chance(1, 2), r.chance(1, 3), r.chance(1, 3), r.chance(3, 4), r.chance(1, 2));
    let k = 1 + r.below(4);
    let types: Vec<usize> = (0..k).map(|_| r.below(STABLE.len())).collect();
    let long = !lite && r.chance(1, 250);
    let n_threads = if lite {
        3
    } else if long {
        1 + r.below(2)
    } else if r.chance(1, 25) {
        5 + r.below(4) // now and then a crowd
    } else {
        1 + r.below(4)
    };
    // now and then a throng: 36-63 caller threads, the schedule picks among all of them
    // at every seam, so that dozens of operations are in flight at once
    // (not in the instrumented configuration: with a seam at every function entry a hundred parked
    // threads make the harness itself so slow that its no-progress limit trips - a false alarm
    // of the harness seen once on the unchanged tree, C17 f64-fnseam, and removed this way)
    let throng = !lite && !long && r.chance(1, 1500) && !cfg!(feature = "fn-seam");
    let n_threads = if throng { 36 + r.below(28) } else { n_threads };
    let mut pool = Vec::new();
    let mut threads = Vec::new();
    for _ in 0..n_threads {
        let n_ops = if long {
            260 + r.below(300)
        } else if throng {
            1 + r.below(2)
        } else if lite {
            2
        } else {
            1 + r.below(5)
        };
        let mut ops = Vec::new();
        for _ in 0..n_ops {
            let what = gen_what(&mut r, &types, &mut pool, true);
            let route = gen_route(&mut r);
            let seams = matches!(route, Route::Node | Route::JsonStream);
            let ser_fault = if seams { gen_fault(&mut r, sw_err, sw_pan, route, false) } else { None };
            let de_fault = if seams { gen_fault(&mut r, sw_err, sw_pan, route, true) } else { None };
            let nested = if seams && sw_nested && r.chance(1, 3) {
                Some((r.below(2) as u8, r.below(8), gen_what(&mut r, &types, &mut pool, false)))
            } else {
                None
            };
            let io_seed = if sw_io && route == Route::JsonStream { r.next() | 1 } else { 0 };
            let from_model = matches!(what, SWhat::Unit { .. }) && r.chance(1, 4);
            let mode = if r.chance(1, 40) { 1 } else { 0 };
            let binary = route == Route::Node && r.chance(1, 3);
            ops.push(SOp { what, route, ser_fault, de_fault, nested, io_seed, from_model, mode, binary });
        }
        if !lite && r.chance(1, 12) {
            if let Some(last) = ops.last_mut() {
                last.mode = 2; // made by a thread-local's destructor at thread exit
            }
        }
        threads.push(ops);
    }
    let n_sched = 8 + r.below(56);
    let sched = (0..n_sched)
        .map(|_| {
            if throng {
                1 + r.below(255) as u8
            } else if !sw_switch || r.chance(1, 2) {
                0
            } else {
                1 + r.below(8) as u8
            }
        })
        .collect();
    let alloc_seams = n_threads > 1 && r.chance(1, 2);
    SPlan { seed, backend: amt::BACKEND.to_string(), threads, sched, alloc_seams, lean: false, repeat: 0 }
}

// ------------------------------------------------------------ systematic plans
//
// A bounded space enumerated completely: every unit of every serialisable type x
// {a value, the bare unit} x route {Node, JsonStream} x phase {serialisation,
// deserialisation} x seam call index 0..SYS_K x event {error, panic caught,
// hand-over to a second caller thread, re-entrant round trip}, each followed by
// probe round trips on the same thread.

pub const SYS_K: usize = 16;

pub fn sys_total() -> u64 {
    let units: usize = STABLE.iter().map(|e| (e.n_units)()).sum();
    (units * 2 * 2 * 2 * SYS_K * 4) as u64
}

pub fn systematic(index: u64) -> SPlan {
    let mut i = index as usize;
    let variant = i % 4;
    i /= 4;
    let k = i % SYS_K;
    i /= SYS_K;
    let phase = (i % 2) as u8;
    i /= 2;
    let route = if i % 2 == 0 { Route::Node } else { Route::JsonStream };
    i /= 2;
    let first_is_unit = i % 2 == 1;
    i /= 2;
    let (mut ty, mut unit) = (0, 0);
    for (t, e) in STABLE.iter().enumerate() {
        let n = (e.n_units)();
        if i < n {
            ty = t;
            unit = i;
            break;
        }
        i -= n;
    }
    let other = (ty + 1) % STABLE.len();
    let q = |ty, unit, milli| SWhat::Qty { ty, unit, amount: amt::from_milli(milli) };
    let op = |what, route| SOp { what, route, ser_fault: None, de_fault: None, nested: None, io_seed: 0, from_model: false, mode: 0, binary: false };
    let first_what = if first_is_unit { SWhat::Unit { ty, unit } } else { q(ty, unit, -12500) };
    let probes = vec![
        op(q(ty, unit, 3250), Route::JsonString),
        op(q(other, 0, -7500), Route::Node),
        op(SWhat::Unit { ty, unit }, Route::JsonStream),
        op(first_what.clone(), route),
        op(q(ty, unit, 3250), Route::JsonValue),
    ];
    let mut first = op(first_what, route);
    let mut threads;
    let mut sched = vec![0u8; 1];
    match variant {
        0 | 1 => {
            let f = Some((k, if variant == 0 { SFault::Error } else { SFault::Panic }));
            if phase == 0 {
                first.ser_fault = f;
            } else {
                first.de_fault = f;
            }
            threads = vec![vec![first]];
            threads[0].extend(probes);
        }
        2 => {
            // T0 is suspended exactly at the k-th seam call of the phase (for the
            // deserialisation: counted from the start of the operation, so the
            // hand-over lands somewhere in it); T1 runs all its round trips; T0 resumes
            threads = vec![vec![first, op(q(ty, unit, 3250), Route::Node)], probes];
            sched = vec![1];
            let skip = 1 + k + if phase == 1 { 8 } else { 0 };
            sched.extend(std::iter::repeat(0).take(skip));
            sched.push(2);
            sched.extend(std::iter::repeat(0).take(600));
        }
        _ => {
            first.nested = Some((phase, k, q(ty, unit, -3250)));
            threads = vec![vec![first]];
            threads[0].extend(probes);
        }
    }
    SPlan { seed: index, backend: amt::BACKEND.to_string(), threads, sched, alloc_seams: false, lean: false, repeat: 0 }
}

// ------------------------------------------------------------------ soak plans
//
// A long history in one process and on one thread: plan `i` round-trips values and
// units of type `i` `ops` times (every unit in turn, varying amounts, mostly by the
// seam-less string and value-tree routes, now and then through the tree seam).
// State that only goes wrong after tens of thousands of operations (a counter that
// wraps, a table rebuilt at a threshold, a buffer that has grown) needs it.

pub fn soak_total() -> u64 {
    STABLE.len() as u64
}

pub const SOAK_CYCLE: usize = 2048;

pub fn soak(index: u64, ops: u64) -> SPlan {
    let ty = index as usize % STABLE.len();
    let n = (STABLE[ty].n_units)();
    let mut v = Vec::with_capacity(SOAK_CYCLE);
    for k in 0..SOAK_CYCLE {
        let unit = k % n;
        let what = if k % 61 == 60 {
            SWhat::Unit { ty, unit }
        } else {
            SWhat::Qty { ty, unit, amount: amt::from_milli((k as i64 * 37) % 9001 - 4500) }
        };
        let route = match k % 1024 {
            1023 => Route::Node,
            x if x % 2 == 0 => Route::JsonString,
            _ => Route::JsonValue,
        };
        v.push(SOp { what, route, ser_fault: None, de_fault: None, nested: None, io_seed: 0, from_model: false, mode: if k % 512 == 77 { 1 } else { 0 }, binary: route == Route::Node && k % 3 == 1 });
    }
    let repeat = (ops + SOAK_CYCLE as u64 - 1) / SOAK_CYCLE as u64;
    SPlan { seed: index, backend: amt::BACKEND.to_string(), threads: vec![v], sched: vec![0], alloc_seams: false, lean: true, repeat }
}
