//! The serde seam (property C17): a `Serializer` and a `Deserializer` the
//! simulator owns, over a lossless tree of the serde data model (`Node`).
//!
//! The library's `Serialize` / `Deserialize` impls (derived through the
//! `#[quantity]` macro) hand control to caller-supplied code at every call they
//! make into the serializer / deserializer. Each such call is a *seam call*
//! (`Seam::call`): a scheduling point, a fault point (the call returns an error
//! from then on, or panics and the caller catches it) and a re-entrancy point
//! (the seam itself round-trips another value on the same thread).
//!
//! The deserializer presents the tree the way a self-describing text format
//! (JSON) would: structs as maps with string keys, unit variants as strings.
use std::cell::RefCell;
use std::fmt;

use serde::de::{self, DeserializeSeed, EnumAccess, IntoDeserializer, MapAccess, SeqAccess, VariantAccess, Visitor};
use serde::ser::{self, Serialize};
use serde::{Deserialize as DeriveDeserialize, Serialize as DeriveSerialize};

use crate::exec::{in_lib, in_sim, Sched};
use crate::splan::SFault;

// ----------------------------------------------------------------------- seam

/// What the seam is asked to do at its k-th call, and what it did.
pub struct Seam<'a> {
    pub sched: &'a Sched,
    pub me: usize,
    pub calls: usize,
    pub fault: Option<(usize, SFault)>,
    pub fired: Option<SFault>,
    /// at the k-th call run this closure once (a re-entrant round trip)
    pub nested_at: Option<usize>,
    pub nested_hook: Option<Box<dyn FnMut() + 'a>>,
    pub nested_ran: bool,
    /// the format presents itself as not human-readable (`is_human_readable() == false`),
    /// the way self-describing binary formats (CBOR, MessagePack) do
    pub binary: bool,
}

pub type SeamCell<'a> = RefCell<Seam<'a>>;

#[derive(Debug, Clone, Copy, PartialEq, Eq)]
pub enum Hit {
    Pass,
    Error,
    Eof,
}

impl<'a> Seam<'a> {
    pub fn new(sched: &'a Sched, me: usize, fault: Option<(usize, SFault)>) -> Self {
        Seam { sched, me, calls: 0, fault, fired: None, nested_at: None, nested_hook: None, nested_ran: false, binary: false }
    }
}

/// One call of library code into caller-supplied code.
pub fn seam_call(cell: &SeamCell<'_>) -> Hit {
    in_sim(|| {
        let (k, sched, me) = {
            let mut s = cell.borrow_mut();
            let k = s.calls;
            s.calls += 1;
            (k, s.sched, s.me)
        };
        sched.seam_kind(me, true, 0);
        // a broken serializer / stream stays broken
        match cell.borrow().fired {
            Some(SFault::Error) => return Hit::Error,
            Some(SFault::Eof) => return Hit::Eof,
            _ => {}
        }
        let hook = {
            let mut s = cell.borrow_mut();
            if s.nested_at == Some(k) && !s.nested_ran {
                s.nested_ran = true;
                s.nested_hook.take()
            } else {
                None
            }
        };
        if let Some(mut h) = hook {
            h();
        }
        let fault = cell.borrow().fault;
        if let Some((at, kind)) = fault {
            if at == k {
                cell.borrow_mut().fired = Some(kind);
                match kind {
                    SFault::Error => return Hit::Error,
                    SFault::Eof => return Hit::Eof,
                    SFault::Panic => panic!("simulated crash in caller-supplied serializer code"),
                }
            }
        }
        Hit::Pass
    })
}

// ----------------------------------------------------------------------- tree

/// Lossless tree of the serde data model.
#[derive(Clone, Debug, PartialEq, DeriveSerialize, DeriveDeserialize)]
pub enum Node {
    Bool(bool),
    I64(i64),
    U64(u64),
    I128(String),
    U128(String),
    F32(u32),
    /// IEEE-754 bits
    F64(u64),
    Char(char),
    Str(String),
    Bytes(Vec<u8>),
    None,
    Some(Box<Node>),
    Unit,
    UnitStruct(String),
    UnitVariant { name: String, index: u32, variant: String },
    NewtypeStruct(String, Box<Node>),
    NewtypeVariant { name: String, index: u32, variant: String, value: Box<Node> },
    Seq(Vec<Node>),
    Tuple(Vec<Node>),
    TupleStruct(String, Vec<Node>),
    TupleVariant { name: String, index: u32, variant: String, fields: Vec<Node> },
    Map(Vec<(Node, Node)>),
    Struct { name: String, fields: Vec<(String, Node)> },
    StructVariant { name: String, index: u32, variant: String, fields: Vec<(String, Node)> },
}

#[derive(Debug, Clone)]
pub struct NodeErr(pub String);

impl fmt::Display for NodeErr {
    fn fmt(&self, f: &mut fmt::Formatter<'_>) -> fmt::Result {
        f.write_str(&self.0)
    }
}
impl std::error::Error for NodeErr {}
impl ser::Error for NodeErr {
    fn custom<T: fmt::Display>(msg: T) -> Self {
        NodeErr(in_sim(|| msg.to_string()))
    }
}
impl de::Error for NodeErr {
    fn custom<T: fmt::Display>(msg: T) -> Self {
        NodeErr(in_sim(|| msg.to_string()))
    }
}

fn injected() -> NodeErr {
    NodeErr("injected fault".into())
}

fn gate(cell: &SeamCell<'_>) -> Result<(), NodeErr> {
    match seam_call(cell) {
        Hit::Pass => Ok(()),
        _ => Err(injected()),
    }
}

// ----------------------------------------------------------------- serializer

#[derive(Clone, Copy)]
pub struct NodeSer<'s, 'a> {
    pub seam: &'s SeamCell<'a>,
}

fn sub<'s, 'a, T: ?Sized + Serialize>(seam: &'s SeamCell<'a>, v: &T) -> Result<Node, NodeErr> {
    // handing a part of the value back to its own `Serialize` impl: library code
    in_lib(|| v.serialize(NodeSer { seam }))
}

pub struct Compound<'s, 'a> {
    seam: &'s SeamCell<'a>,
    kind: CKind,
    items: Vec<Node>,
    fields: Vec<(String, Node)>,
    pairs: Vec<(Node, Node)>,
    key: Option<Node>,
}

enum CKind {
    Seq,
    Tuple,
    TupleStruct(String),
    TupleVariant(String, u32, String),
    Map,
    Struct(String),
    StructVariant(String, u32, String),
}

impl<'s, 'a> Compound<'s, 'a> {
    fn new(seam: &'s SeamCell<'a>, kind: CKind) -> Self {
        Compound { seam, kind, items: Vec::new(), fields: Vec::new(), pairs: Vec::new(), key: None }
    }
    fn finish(self) -> Result<Node, NodeErr> {
        gate(self.seam)?;
        Ok(in_sim(|| match self.kind {
            CKind::Seq => Node::Seq(self.items),
            CKind::Tuple => Node::Tuple(self.items),
            CKind::TupleStruct(n) => Node::TupleStruct(n, self.items),
            CKind::TupleVariant(name, index, variant) => Node::TupleVariant { name, index, variant, fields: self.items },
            CKind::Map => Node::Map(self.pairs),
            CKind::Struct(name) => Node::Struct { name, fields: self.fields },
            CKind::StructVariant(name, index, variant) => Node::StructVariant { name, index, variant, fields: self.fields },
        }))
    }
    fn item<T: ?Sized + Serialize>(&mut self, v: &T) -> Result<(), NodeErr> {
        gate(self.seam)?;
        let n = sub(self.seam, v)?;
        in_sim(|| self.items.push(n));
        Ok(())
    }
    fn field<T: ?Sized + Serialize>(&mut self, key: &'static str, v: &T) -> Result<(), NodeErr> {
        gate(self.seam)?;
        let n = sub(self.seam, v)?;
        in_sim(|| self.fields.push((key.to_string(), n)));
        Ok(())
    }
}

macro_rules! leaf {
    ($name:ident, $t:ty, $v:ident => $node:expr) => {
        fn $name(self, $v: $t) -> Result<Node, NodeErr> {
            gate(self.seam)?;
            Ok(in_sim(|| $node))
        }
    };
}

impl<'s, 'a> ser::Serializer for NodeSer<'s, 'a> {
    type Ok = Node;
    type Error = NodeErr;
    type SerializeSeq = Compound<'s, 'a>;
    type SerializeTuple = Compound<'s, 'a>;
    type SerializeTupleStruct = Compound<'s, 'a>;
    type SerializeTupleVariant = Compound<'s, 'a>;
    type SerializeMap = Compound<'s, 'a>;
    type SerializeStruct = Compound<'s, 'a>;
    type SerializeStructVariant = Compound<'s, 'a>;

    leaf!(serialize_bool, bool, v => Node::Bool(v));
    leaf!(serialize_i8, i8, v => Node::I64(v as i64));
    leaf!(serialize_i16, i16, v => Node::I64(v as i64));
    leaf!(serialize_i32, i32, v => Node::I64(v as i64));
    leaf!(serialize_i64, i64, v => Node::I64(v));
    leaf!(serialize_i128, i128, v => Node::I128(v.to_string()));
    leaf!(serialize_u8, u8, v => Node::U64(v as u64));
    leaf!(serialize_u16, u16, v => Node::U64(v as u64));
    leaf!(serialize_u32, u32, v => Node::U64(v as u64));
    leaf!(serialize_u64, u64, v => Node::U64(v));
    leaf!(serialize_u128, u128, v => Node::U128(v.to_string()));
    leaf!(serialize_f32, f32, v => Node::F32(v.to_bits()));
    leaf!(serialize_f64, f64, v => Node::F64(v.to_bits()));
    leaf!(serialize_char, char, v => Node::Char(v));
    leaf!(serialize_str, &str, v => Node::Str(v.to_string()));
    leaf!(serialize_bytes, &[u8], v => Node::Bytes(v.to_vec()));

    fn serialize_none(self) -> Result<Node, NodeErr> {
        gate(self.seam)?;
        Ok(Node::None)
    }
    fn serialize_some<T: ?Sized + Serialize>(self, v: &T) -> Result<Node, NodeErr> {
        gate(self.seam)?;
        let n = sub(self.seam, v)?;
        Ok(in_sim(|| Node::Some(Box::new(n))))
    }
    fn serialize_unit(self) -> Result<Node, NodeErr> {
        gate(self.seam)?;
        Ok(Node::Unit)
    }
    fn serialize_unit_struct(self, name: &'static str) -> Result<Node, NodeErr> {
        gate(self.seam)?;
        Ok(in_sim(|| Node::UnitStruct(name.to_string())))
    }
    fn serialize_unit_variant(self, name: &'static str, index: u32, variant: &'static str) -> Result<Node, NodeErr> {
        gate(self.seam)?;
        Ok(in_sim(|| Node::UnitVariant { name: name.to_string(), index, variant: variant.to_string() }))
    }
    fn serialize_newtype_struct<T: ?Sized + Serialize>(self, name: &'static str, v: &T) -> Result<Node, NodeErr> {
        gate(self.seam)?;
        let n = sub(self.seam, v)?;
        Ok(in_sim(|| Node::NewtypeStruct(name.to_string(), Box::new(n))))
    }
    fn serialize_newtype_variant<T: ?Sized + Serialize>(
        self,
        name: &'static str,
        index: u32,
        variant: &'static str,
        v: &T,
    ) -> Result<Node, NodeErr> {
        gate(self.seam)?;
        let n = sub(self.seam, v)?;
        Ok(in_sim(|| Node::NewtypeVariant { name: name.to_string(), index, variant: variant.to_string(), value: Box::new(n) }))
    }
    fn serialize_seq(self, _len: Option<usize>) -> Result<Compound<'s, 'a>, NodeErr> {
        gate(self.seam)?;
        Ok(Compound::new(self.seam, CKind::Seq))
    }
    fn serialize_tuple(self, _len: usize) -> Result<Compound<'s, 'a>, NodeErr> {
        gate(self.seam)?;
        Ok(Compound::new(self.seam, CKind::Tuple))
    }
    fn serialize_tuple_struct(self, name: &'static str, _len: usize) -> Result<Compound<'s, 'a>, NodeErr> {
        gate(self.seam)?;
        Ok(in_sim(|| Compound::new(self.seam, CKind::TupleStruct(name.to_string()))))
    }
    fn serialize_tuple_variant(
        self,
        name: &'static str,
        index: u32,
        variant: &'static str,
        _len: usize,
    ) -> Result<Compound<'s, 'a>, NodeErr> {
        gate(self.seam)?;
        Ok(in_sim(|| Compound::new(self.seam, CKind::TupleVariant(name.to_string(), index, variant.to_string()))))
    }
    fn serialize_map(self, _len: Option<usize>) -> Result<Compound<'s, 'a>, NodeErr> {
        gate(self.seam)?;
        Ok(Compound::new(self.seam, CKind::Map))
    }
    fn serialize_struct(self, name: &'static str, _len: usize) -> Result<Compound<'s, 'a>, NodeErr> {
        gate(self.seam)?;
        Ok(in_sim(|| Compound::new(self.seam, CKind::Struct(name.to_string()))))
    }
    fn serialize_struct_variant(
        self,
        name: &'static str,
        index: u32,
        variant: &'static str,
        _len: usize,
    ) -> Result<Compound<'s, 'a>, NodeErr> {
        gate(self.seam)?;
        Ok(in_sim(|| Compound::new(self.seam, CKind::StructVariant(name.to_string(), index, variant.to_string()))))
    }
    fn collect_str<T: ?Sized + fmt::Display>(self, v: &T) -> Result<Node, NodeErr> {
        gate(self.seam)?;
        // rendering the value is library / amount-type code
        let s = in_lib(|| v.to_string());
        Ok(Node::Str(s))
    }
    fn is_human_readable(&self) -> bool {
        !self.seam.borrow().binary
    }
}

impl ser::SerializeSeq for Compound<'_, '_> {
    type Ok = Node;
    type Error = NodeErr;
    fn serialize_element<T: ?Sized + Serialize>(&mut self, v: &T) -> Result<(), NodeErr> {
        self.item(v)
    }
    fn end(self) -> Result<Node, NodeErr> {
        self.finish()
    }
}
impl ser::SerializeTuple for Compound<'_, '_> {
    type Ok = Node;
    type Error = NodeErr;
    fn serialize_element<T: ?Sized + Serialize>(&mut self, v: &T) -> Result<(), NodeErr> {
        self.item(v)
    }
    fn end(self) -> Result<Node, NodeErr> {
        self.finish()
    }
}
impl ser::SerializeTupleStruct for Compound<'_, '_> {
    type Ok = Node;
    type Error = NodeErr;
    fn serialize_field<T: ?Sized + Serialize>(&mut self, v: &T) -> Result<(), NodeErr> {
        self.item(v)
    }
    fn end(self) -> Result<Node, NodeErr> {
        self.finish()
    }
}
impl ser::SerializeTupleVariant for Compound<'_, '_> {
    type Ok = Node;
    type Error = NodeErr;
    fn serialize_field<T: ?Sized + Serialize>(&mut self, v: &T) -> Result<(), NodeErr> {
        self.item(v)
    }
    fn end(self) -> Result<Node, NodeErr> {
        self.finish()
    }
}
impl ser::SerializeMap for Compound<'_, '_> {
    type Ok = Node;
    type Error = NodeErr;
    fn serialize_key<T: ?Sized + Serialize>(&mut self, k: &T) -> Result<(), NodeErr> {
        gate(self.seam)?;
        let n = sub(self.seam, k)?;
        self.key = Some(n);
        Ok(())
    }
    fn serialize_value<T: ?Sized + Serialize>(&mut self, v: &T) -> Result<(), NodeErr> {
        gate(self.seam)?;
        let n = sub(self.seam, v)?;
        let k = self.key.take().unwrap_or(Node::Unit);
        in_sim(|| self.pairs.push((k, n)));
        Ok(())
    }
    fn end(self) -> Result<Node, NodeErr> {
        self.finish()
    }
}
impl ser::SerializeStruct for Compound<'_, '_> {
    type Ok = Node;
    type Error = NodeErr;
    fn serialize_field<T: ?Sized + Serialize>(&mut self, key: &'static str, v: &T) -> Result<(), NodeErr> {
        self.field(key, v)
    }
    fn end(self) -> Result<Node, NodeErr> {
        self.finish()
    }
}
impl ser::SerializeStructVariant for Compound<'_, '_> {
    type Ok = Node;
    type Error = NodeErr;
    fn serialize_field<T: ?Sized + Serialize>(&mut self, key: &'static str, v: &T) -> Result<(), NodeErr> {
        self.field(key, v)
    }
    fn end(self) -> Result<Node, NodeErr> {
        self.finish()
    }
}

// --------------------------------------------------------------- deserializer

#[derive(Clone, Copy)]
pub struct NodeDe<'s, 'a, 'n> {
    pub seam: &'s SeamCell<'a>,
    pub node: &'n Node,
}

impl<'s, 'a, 'n> NodeDe<'s, 'a, 'n> {
    fn at(&self, node: &'n Node) -> Self {
        NodeDe { seam: self.seam, node }
    }
}

/// Calls a visitor method: that is library (derive-generated) code.
macro_rules! visit {
    ($e:expr) => {
        in_lib(|| $e)
    };
}

struct Elems<'s, 'a, 'n> {
    seam: &'s SeamCell<'a>,
    it: std::slice::Iter<'n, Node>,
}

impl<'de, 's, 'a, 'n> SeqAccess<'de> for Elems<'s, 'a, 'n> {
    type Error = NodeErr;
    fn next_element_seed<T: DeserializeSeed<'de>>(&mut self, seed: T) -> Result<Option<T::Value>, NodeErr> {
        gate(self.seam)?;
        match self.it.next() {
            Some(n) => {
                let d = NodeDe { seam: self.seam, node: n };
                visit!(seed.deserialize(d)).map(Some)
            }
            None => Ok(None),
        }
    }
    fn size_hint(&self) -> Option<usize> {
        Some(self.it.len())
    }
}

struct Fields<'s, 'a, 'n> {
    seam: &'s SeamCell<'a>,
    it: std::slice::Iter<'n, (String, Node)>,
    value: Option<&'n Node>,
}

impl<'de, 's, 'a, 'n> MapAccess<'de> for Fields<'s, 'a, 'n> {
    type Error = NodeErr;
    fn next_key_seed<K: DeserializeSeed<'de>>(&mut self, seed: K) -> Result<Option<K::Value>, NodeErr> {
        gate(self.seam)?;
        match self.it.next() {
            Some((k, v)) => {
                self.value = Some(v);
                let kd: de::value::StrDeserializer<'_, NodeErr> = k.as_str().into_deserializer();
                visit!(seed.deserialize(kd)).map(Some)
            }
            None => Ok(None),
        }
    }
    fn next_value_seed<V: DeserializeSeed<'de>>(&mut self, seed: V) -> Result<V::Value, NodeErr> {
        gate(self.seam)?;
        let n = self.value.take().ok_or_else(|| NodeErr("value requested before key".into()))?;
        let d = NodeDe { seam: self.seam, node: n };
        visit!(seed.deserialize(d))
    }
}

struct Pairs<'s, 'a, 'n> {
    seam: &'s SeamCell<'a>,
    it: std::slice::Iter<'n, (Node, Node)>,
    value: Option<&'n Node>,
}

impl<'de, 's, 'a, 'n> MapAccess<'de> for Pairs<'s, 'a, 'n> {
    type Error = NodeErr;
    fn next_key_seed<K: DeserializeSeed<'de>>(&mut self, seed: K) -> Result<Option<K::Value>, NodeErr> {
        gate(self.seam)?;
        match self.it.next() {
            Some((k, v)) => {
                self.value = Some(v);
                let d = NodeDe { seam: self.seam, node: k };
                visit!(seed.deserialize(d)).map(Some)
            }
            None => Ok(None),
        }
    }
    fn next_value_seed<V: DeserializeSeed<'de>>(&mut self, seed: V) -> Result<V::Value, NodeErr> {
        gate(self.seam)?;
        let n = self.value.take().ok_or_else(|| NodeErr("value requested before key".into()))?;
        let d = NodeDe { seam: self.seam, node: n };
        visit!(seed.deserialize(d))
    }
}

/// Externally tagged enum, as a self-describing format presents it.
struct Variant<'s, 'a, 'n> {
    seam: &'s SeamCell<'a>,
    name: &'n str,
    content: VContent<'n>,
}

enum VContent<'n> {
    Unit,
    Newtype(&'n Node),
    Tuple(&'n [Node]),
    Struct(&'n [(String, Node)]),
}

impl<'de, 's, 'a, 'n> EnumAccess<'de> for Variant<'s, 'a, 'n> {
    type Error = NodeErr;
    type Variant = Self;
    fn variant_seed<V: DeserializeSeed<'de>>(self, seed: V) -> Result<(V::Value, Self), NodeErr> {
        gate(self.seam)?;
        let kd: de::value::StrDeserializer<'_, NodeErr> = self.name.into_deserializer();
        let v = visit!(seed.deserialize(kd))?;
        Ok((v, self))
    }
}

impl<'de, 's, 'a, 'n> VariantAccess<'de> for Variant<'s, 'a, 'n> {
    type Error = NodeErr;
    fn unit_variant(self) -> Result<(), NodeErr> {
        gate(self.seam)?;
        match self.content {
            VContent::Unit => Ok(()),
            _ => Err(NodeErr("expected a unit variant".into())),
        }
    }
    fn newtype_variant_seed<T: DeserializeSeed<'de>>(self, seed: T) -> Result<T::Value, NodeErr> {
        gate(self.seam)?;
        match self.content {
            VContent::Newtype(n) => visit!(seed.deserialize(NodeDe { seam: self.seam, node: n })),
            _ => Err(NodeErr("expected a newtype variant".into())),
        }
    }
    fn tuple_variant<V: Visitor<'de>>(self, _len: usize, visitor: V) -> Result<V::Value, NodeErr> {
        gate(self.seam)?;
        match self.content {
            VContent::Tuple(items) => visit!(visitor.visit_seq(Elems { seam: self.seam, it: items.iter() })),
            _ => Err(NodeErr("expected a tuple variant".into())),
        }
    }
    fn struct_variant<V: Visitor<'de>>(self, _fields: &'static [&'static str], visitor: V) -> Result<V::Value, NodeErr> {
        gate(self.seam)?;
        match self.content {
            VContent::Struct(fields) => visit!(visitor.visit_map(Fields { seam: self.seam, it: fields.iter(), value: None })),
            _ => Err(NodeErr("expected a struct variant".into())),
        }
    }
}

impl<'de, 's, 'a, 'n> de::Deserializer<'de> for NodeDe<'s, 'a, 'n> {
    type Error = NodeErr;

    fn deserialize_any<V: Visitor<'de>>(self, visitor: V) -> Result<V::Value, NodeErr> {
        gate(self.seam)?;
        let seam = self.seam;
        match self.node {
            Node::Bool(b) => visit!(visitor.visit_bool(*b)),
            Node::I64(v) => visit!(visitor.visit_i64(*v)),
            Node::U64(v) => visit!(visitor.visit_u64(*v)),
            Node::I128(s) => {
                let v: i128 = s.parse().map_err(|_| NodeErr("bad i128".into()))?;
                visit!(visitor.visit_i128(v))
            }
            Node::U128(s) => {
                let v: u128 = s.parse().map_err(|_| NodeErr("bad u128".into()))?;
                visit!(visitor.visit_u128(v))
            }
            Node::F32(b) => visit!(visitor.visit_f32(f32::from_bits(*b))),
            Node::F64(b) => visit!(visitor.visit_f64(f64::from_bits(*b))),
            Node::Char(c) => visit!(visitor.visit_char(*c)),
            Node::Str(s) => visit!(visitor.visit_str(s)),
            Node::Bytes(b) => visit!(visitor.visit_bytes(b)),
            Node::None | Node::Unit | Node::UnitStruct(_) => visit!(visitor.visit_unit()),
            Node::Some(n) => visit!(visitor.visit_some(self.at(n))),
            Node::UnitVariant { variant, .. } => visit!(visitor.visit_str(variant)),
            Node::NewtypeStruct(_, n) => visit!(visitor.visit_newtype_struct(self.at(n))),
            Node::Seq(items) | Node::Tuple(items) | Node::TupleStruct(_, items) => {
                visit!(visitor.visit_seq(Elems { seam, it: items.iter() }))
            }
            Node::Map(pairs) => visit!(visitor.visit_map(Pairs { seam, it: pairs.iter(), value: None })),
            Node::Struct { fields, .. } => visit!(visitor.visit_map(Fields { seam, it: fields.iter(), value: None })),
            Node::NewtypeVariant { .. } | Node::TupleVariant { .. } | Node::StructVariant { .. } => {
                Err(NodeErr("a non-unit variant outside an enum request".into()))
            }
        }
    }

    fn deserialize_option<V: Visitor<'de>>(self, visitor: V) -> Result<V::Value, NodeErr> {
        gate(self.seam)?;
        match self.node {
            Node::None | Node::Unit => visit!(visitor.visit_none()),
            Node::Some(n) => visit!(visitor.visit_some(self.at(n))),
            _ => visit!(visitor.visit_some(self)),
        }
    }

    fn deserialize_newtype_struct<V: Visitor<'de>>(self, _name: &'static str, visitor: V) -> Result<V::Value, NodeErr> {
        gate(self.seam)?;
        match self.node {
            Node::NewtypeStruct(_, n) => visit!(visitor.visit_newtype_struct(self.at(n))),
            _ => visit!(visitor.visit_newtype_struct(self)),
        }
    }

    fn deserialize_enum<V: Visitor<'de>>(
        self,
        _name: &'static str,
        _variants: &'static [&'static str],
        visitor: V,
    ) -> Result<V::Value, NodeErr> {
        gate(self.seam)?;
        let seam = self.seam;
        let acc = match self.node {
            Node::UnitVariant { variant, .. } => Variant { seam, name: variant, content: VContent::Unit },
            Node::Str(s) => Variant { seam, name: s, content: VContent::Unit },
            Node::NewtypeVariant { variant, value, .. } => Variant { seam, name: variant, content: VContent::Newtype(value) },
            Node::TupleVariant { variant, fields, .. } => Variant { seam, name: variant, content: VContent::Tuple(fields) },
            Node::StructVariant { variant, fields, .. } => Variant { seam, name: variant, content: VContent::Struct(fields) },
            _ => return Err(NodeErr("expected an enum".into())),
        };
        visit!(visitor.visit_enum(acc))
    }

    fn deserialize_ignored_any<V: Visitor<'de>>(self, visitor: V) -> Result<V::Value, NodeErr> {
        gate(self.seam)?;
        visit!(visitor.visit_unit())
    }

    fn is_human_readable(&self) -> bool {
        !self.seam.borrow().binary
    }

    serde::forward_to_deserialize_any! {
        bool i8 i16 i32 i64 i128 u8 u16 u32 u64 u128 f32 f64 char str string
        bytes byte_buf unit unit_struct seq tuple
        tuple_struct map struct identifier
    }
}
