//! What the simulated callers serialise and deserialise (property C17): values
//! and units of every catalogue quantity and of a few synthetic macro-defined
//! types, alone or several in one container, through one of four routes.
use std::collections::BTreeMap;
use std::fmt::Debug;

use quantities::prelude::*;
use quantities::{
    acceleration::Acceleration, area::Area, datathroughput::DataThroughput, datavolume::DataVolume, duration::Duration,
    energy::Energy, force::Force, frequency::Frequency, length::Length, mass::Mass, power::Power, speed::Speed,
    temperature::Temperature, volume::Volume,
};
use serde::de::DeserializeOwned;
use serde::{Deserialize, Serialize};

use crate::prng::Prng;
use crate::sio::{IoCounts, SimReader, SimWriter};
use crate::snode::{Node, NodeDe, NodeSer, SeamCell};
use crate::splan::{Route, SWhat};
use crate::subjects::synth::{Bare, Count, Foo, Odd, Soda};
use crate::subjects::{amt, Amt};

/// An application's own quantities that carry the same bare type names as
/// catalogue ones (the way the astronomical crate redefines `Length`): serde is
/// handed only the bare name ("LengthUnit"), so anything keyed by it is shared.
pub mod alias {
    #![allow(dead_code)]
    use quantities::prelude::*;

    #[quantity]
    #[ref_unit(Nautical_Mile, "NM")]
    #[unit(Cable, "cbl", 0.1)]
    #[unit(Fathom, "ftm", 0.001)]
    #[unit(Meter, "m*", 0.00054)]
    pub struct Length {}

    #[quantity]
    #[unit(Stone, "st")]
    #[unit(Gram, "gr")]
    pub struct Mass {}
}

/// A serialised form, as produced by one of the routes.
#[derive(Clone, Debug, PartialEq)]
pub enum Form {
    Node(Node),
    Text(Vec<u8>),
    Value(serde_json::Value),
}

impl Form {
    pub fn show(&self) -> String {
        match self {
            Form::Node(n) => format!("{:?}", n),
            Form::Text(t) => String::from_utf8_lossy(t).into_owned(),
            Form::Value(v) => v.to_string(),
        }
    }
}

pub struct IoParams<'c> {
    pub seed: u64,
    pub counts: &'c IoCounts,
}

/// Identity of a value: units by variant, amounts by their bits.
pub trait Ident {
    fn ident(&self) -> String;
}

#[derive(Serialize, Deserialize)]
#[serde(transparent)]
pub struct QV<Q>(pub Q);
#[derive(Serialize, Deserialize)]
#[serde(transparent)]
pub struct UV<U>(pub U);

#[cfg(not(feature = "fpdec"))]
fn amount_ident(a: AmountT) -> String {
    format!("{:?}#{:016x}", a, a.to_bits())
}
#[cfg(feature = "fpdec")]
fn amount_ident(a: AmountT) -> String {
    format!("{}#{}e-{}", a, a.coefficient(), a.n_frac_digits())
}

impl<Q: Quantity> Ident for QV<Q>
where
    Q::UnitType: Debug,
{
    fn ident(&self) -> String {
        format!("{} {:?}", amount_ident(self.0.amount()), self.0.unit())
    }
}
impl<U: Debug> Ident for UV<U> {
    fn ident(&self) -> String {
        format!("{:?}", self.0)
    }
}
impl<T: Ident> Ident for Vec<T> {
    fn ident(&self) -> String {
        format!("[{}]", self.iter().map(|x| x.ident()).collect::<Vec<_>>().join(", "))
    }
}
impl<T: Ident> Ident for Option<T> {
    fn ident(&self) -> String {
        match self {
            Some(x) => format!("Some({})", x.ident()),
            None => "None".into(),
        }
    }
}
impl<A: Ident, B: Ident> Ident for (A, B) {
    fn ident(&self) -> String {
        format!("({}, {})", self.0.ident(), self.1.ident())
    }
}
/// A user's struct with the quantity's fields merged into its own (`#[serde(flatten)]`).
#[derive(Serialize, Deserialize)]
pub struct Tagged<T> {
    pub id: u32,
    #[serde(flatten)]
    pub q: T,
}
/// A user's struct with quantities as fields, also nested two levels deep.
#[derive(Serialize, Deserialize)]
pub struct Record<T> {
    pub label: String,
    pub q: T,
    pub grid: Vec<Vec<T>>,
}
/// A value one level below a flattened struct: serde buffers the flattened entries in its
/// private `Content` tree and hands the value's `Deserialize` a deserializer of its own.
#[derive(Serialize, Deserialize)]
pub struct Inner<T> {
    pub q: T,
    pub note: String,
}
#[derive(Serialize, Deserialize)]
pub struct Outer<T> {
    pub id: u32,
    #[serde(flatten)]
    pub inner: Inner<T>,
}
/// An untagged enum (input buffered, variants tried in turn).
#[derive(Serialize, Deserialize)]
#[serde(untagged)]
pub enum Either<T> {
    One(T),
    Many(Vec<T>),
}
/// Further entries of a user struct collected into a map of values.
#[derive(Serialize, Deserialize)]
pub struct Bag<T> {
    pub id: u32,
    #[serde(flatten)]
    pub extra: BTreeMap<String, T>,
}
impl<T: Ident> Ident for Outer<T> {
    fn ident(&self) -> String {
        format!("Outer#{}({}, {:?})", self.id, self.inner.q.ident(), self.inner.note)
    }
}
impl<T: Ident> Ident for Either<T> {
    fn ident(&self) -> String {
        match self {
            Either::One(x) => format!("One({})", x.ident()),
            Either::Many(v) => format!("Many{}", v.ident()),
        }
    }
}
impl<T: Ident> Ident for Bag<T> {
    fn ident(&self) -> String {
        format!("Bag#{}{}", self.id, self.extra.ident())
    }
}
impl<T: Ident> Ident for Tagged<T> {
    fn ident(&self) -> String {
        format!("Tagged#{}({})", self.id, self.q.ident())
    }
}
impl<T: Ident> Ident for Record<T> {
    fn ident(&self) -> String {
        format!("Record {:?} ({}) {}", self.label, self.q.ident(), self.grid.ident())
    }
}
impl<T: Ident> Ident for BTreeMap<String, T> {
    fn ident(&self) -> String {
        format!("{{{}}}", self.iter().map(|(k, v)| format!("{}: {}", k, v.ident())).collect::<Vec<_>>().join(", "))
    }
}

pub trait Subject {
    fn describe(&self) -> String;
    fn ident(&self) -> String;
    /// type and container shape: the space within which serialisations must be injective
    fn type_name(&self) -> String;
    /// for a bare unit: the variant name it must serialise as
    fn unit_variant(&self) -> Option<String>;
    fn ser(&self, route: Route, seam: &SeamCell<'_>, io: &IoParams<'_>) -> Result<Form, String>;
    /// deserialises `form`; `Ok(ident of what came back)`
    fn de(&self, route: Route, form: &Form, seam: &SeamCell<'_>, io: &IoParams<'_>) -> Result<String, String>;
}

struct Held<T> {
    v: T,
    describe: String,
    type_name: &'static str,
    shape: &'static str,
    unit_variant: Option<String>,
}

fn io_rng(seed: u64, salt: u64) -> Option<Prng> {
    if seed == 0 {
        None
    } else {
        Some(Prng::new(seed ^ salt))
    }
}

impl<T: Serialize + DeserializeOwned + Ident> Subject for Held<T> {
    fn describe(&self) -> String {
        self.describe.clone()
    }
    fn ident(&self) -> String {
        self.v.ident()
    }
    fn type_name(&self) -> String {
        format!("{}/{}", self.type_name, self.shape)
    }
    fn unit_variant(&self) -> Option<String> {
        self.unit_variant.clone()
    }
    fn ser(&self, route: Route, seam: &SeamCell<'_>, io: &IoParams<'_>) -> Result<Form, String> {
        match route {
            Route::Node => self.v.serialize(NodeSer { seam }).map(Form::Node).map_err(|e| e.0),
            Route::JsonStream => {
                let mut w = SimWriter { seam, buf: Vec::new(), rng: io_rng(io.seed, 0x57), counts: io.counts };
                let r = if io.seed & 2 != 0 {
                    serde_json::to_writer_pretty(&mut w, &self.v)
                } else {
                    serde_json::to_writer(&mut w, &self.v)
                };
                r.map(|_| Form::Text(w.buf)).map_err(|e| e.to_string())
            }
            Route::JsonString => serde_json::to_string(&self.v).map(|s| Form::Text(s.into_bytes())).map_err(|e| e.to_string()),
            Route::JsonValue => serde_json::to_value(&self.v).map(Form::Value).map_err(|e| e.to_string()),
        }
    }
    fn de(&self, route: Route, form: &Form, seam: &SeamCell<'_>, io: &IoParams<'_>) -> Result<String, String> {
        let back: T = match form {
            Form::Node(n) => T::deserialize(NodeDe { seam, node: n }).map_err(|e| e.0)?,
            Form::Value(v) => serde_json::from_value(v.clone()).map_err(|e| e.to_string())?,
            Form::Text(t) => {
                if route != Route::JsonStream {
                    let s = std::str::from_utf8(t).map_err(|e| e.to_string())?;
                    serde_json::from_str(s).map_err(|e| e.to_string())?
                } else {
                    let rd = SimReader { seam, data: t, pos: 0, rng: io_rng(io.seed, 0xd3), counts: io.counts };
                    match (io.seed >> 2) & 3 {
                        0 | 1 => serde_json::from_reader(rd).map_err(|e| e.to_string())?,
                        2 => serde_json::from_reader(std::io::BufReader::with_capacity(1 + ((io.seed >> 4) & 15) as usize, rd))
                            .map_err(|e| e.to_string())?,
                        _ => serde_json::from_reader(std::io::BufReader::new(rd)).map_err(|e| e.to_string())?,
                    }
                }
            }
        };
        Ok(back.ident())
    }
}

/// Variant names of the synthetic types as declared in `subjects::synth` (the
/// declared identifier in upper camel case, which is what the macro makes the
/// enum variant), in iteration order: known here independently of the generated code.
pub const SYNTH_VARIANTS: &[(&str, &[&str])] = &[
    ("synth::Foo", &["C", "B", "A"]),
    ("synth::Odd", &["MicroThing", "OhmMeter", "AliasThing", "PiThing", "LongSymbolThing"]),
    ("synth::Soda", &["Fizz", "Pop"]),
    ("synth::Count", &["Piece"]),
    ("synth::Bare", &["Each", "Dozen"]),
    ("alias::Length", &["Meter", "Fathom", "Cable", "NauticalMile"]),
    ("alias::Mass", &["Gram", "Stone"]),
];

pub fn declared_tables_fit() -> bool {
    SYNTH_VARIANTS.iter().all(|d| STABLE.iter().any(|e| e.name == d.0 && (e.n_units)() == d.1.len()))
}

/// "Units serialise as their variant names": the variant's identifier, which
/// the compiler-derived `Debug` of the fieldless unit enum prints; for the
/// synthetic types the declared identifier.
fn variant_name<U: Debug>(type_name: &str, idx: usize, u: &U) -> String {
    SYNTH_VARIANTS
        .iter()
        .find(|d| d.0 == type_name)
        .and_then(|d| d.1.get(idx))
        .map(|s| s.to_string())
        .unwrap_or_else(|| format!("{:?}", u))
}

pub const GROUP_FORMS: usize = 10;

fn make<Q>(name: &'static str, what: &SWhat) -> Box<dyn Subject>
where
    Q: Quantity + Serialize + DeserializeOwned + 'static,
    Q::UnitType: Debug + Serialize + DeserializeOwned + 'static,
{
    let n = Q::iter_units().count();
    let unit_at = |i: usize| Q::iter_units().nth(i % n).unwrap();
    let qty = |i: usize, a: Amt| QV(Q::new(amt::to_amount(a), unit_at(i)));
    match what {
        SWhat::Qty { unit, amount, .. } => {
            let q = qty(*unit, *amount);
            Box::new(Held { describe: format!("{} of {}", q.ident(), name), v: q, type_name: name, shape: "value", unit_variant: None })
        }
        SWhat::Unit { unit, .. } => {
            let u = unit_at(*unit);
            let vn = variant_name(name, *unit % n, &u);
            Box::new(Held { describe: format!("unit {:?} of {}", u, name), v: UV(u), type_name: name, shape: "unit", unit_variant: Some(vn) })
        }
        SWhat::Group { items, form, .. } => {
            let get = |i: usize| items.get(i).copied().unwrap_or((0, amt::simple()));
            match form % GROUP_FORMS {
                0 => {
                    let v: Vec<QV<Q>> = items.iter().map(|(u, a)| qty(*u, *a)).collect();
                    Box::new(Held { describe: format!("Vec {} of {}", v.ident(), name), v, type_name: name, shape: "vec", unit_variant: None })
                }
                1 => {
                    let v = (qty(get(0).0, get(0).1), qty(get(1).0, get(1).1));
                    Box::new(Held { describe: format!("tuple {} of {}", v.ident(), name), v, type_name: name, shape: "value-value", unit_variant: None })
                }
                2 => {
                    let v = (qty(get(0).0, get(0).1), UV(unit_at(get(1).0)));
                    Box::new(Held { describe: format!("tuple {} of {}", v.ident(), name), v, type_name: name, shape: "value-unit", unit_variant: None })
                }
                3 => {
                    let v: Option<QV<Q>> = items.first().map(|(u, a)| qty(*u, *a));
                    Box::new(Held { describe: format!("Option {} of {}", v.ident(), name), v, type_name: name, shape: "option", unit_variant: None })
                }
                5 => {
                    let v = Tagged { id: items.len() as u32 + 7, q: qty(get(0).0, get(0).1) };
                    Box::new(Held { describe: format!("flattened {} of {}", v.ident(), name), v, type_name: name, shape: "flatten", unit_variant: None })
                }
                7 => {
                    let v = Outer { id: items.len() as u32 + 3, inner: Inner { q: qty(get(0).0, get(0).1), note: format!("n{}", items.len()) } };
                    Box::new(Held { describe: format!("{} of {}", v.ident(), name), v, type_name: name, shape: "below-flatten", unit_variant: None })
                }
                8 => {
                    let v = if items.len() % 2 == 1 {
                        Either::One(qty(get(0).0, get(0).1))
                    } else {
                        Either::Many(items.iter().map(|(u, a)| qty(*u, *a)).collect())
                    };
                    Box::new(Held { describe: format!("untagged {} of {}", v.ident(), name), v, type_name: name, shape: "untagged", unit_variant: None })
                }
                9 => {
                    let extra: BTreeMap<String, QV<Q>> =
                        items.iter().enumerate().map(|(i, (u, a))| (format!("k{}", i), qty(*u, *a))).collect();
                    let v = Bag { id: items.len() as u32, extra };
                    Box::new(Held { describe: format!("{} of {}", v.ident(), name), v, type_name: name, shape: "flatten-map", unit_variant: None })
                }
                6 => {
                    let rest: Vec<QV<Q>> = items.iter().skip(1).map(|(u, a)| qty(*u, *a)).collect();
                    let v = Record { label: format!("n{}", items.len()), q: qty(get(0).0, get(0).1), grid: vec![rest, Vec::new()] };
                    Box::new(Held { describe: format!("{} of {}", v.ident(), name), v, type_name: name, shape: "record", unit_variant: None })
                }
                _ => {
                    let v: BTreeMap<String, QV<Q>> =
                        items.iter().enumerate().map(|(i, (u, a))| (format!("k{}", i), qty(*u, *a))).collect();
                    Box::new(Held { describe: format!("map {} of {}", v.ident(), name), v, type_name: name, shape: "map", unit_variant: None })
                }
            }
        }
    }
}

pub struct STypeEntry {
    pub name: &'static str,
    pub n_units: fn() -> usize,
    make: fn(&'static str, &SWhat) -> Box<dyn Subject>,
}

fn count_units<Q: Quantity>() -> usize {
    Q::iter_units().count()
}

macro_rules! entry {
    ($name:literal, $q:ty) => {
        STypeEntry { name: $name, n_units: count_units::<$q>, make: make::<$q> }
    };
}

/// Every type that has serialisation support: the catalogue and the synthetic
/// macro-defined types (the astronomical crate has no `serde` feature).
pub static STABLE: &[STypeEntry] = &[
    entry!("Length", Length),
    entry!("Mass", Mass),
    entry!("Duration", Duration),
    entry!("Area", Area),
    entry!("Volume", Volume),
    entry!("Speed", Speed),
    entry!("Acceleration", Acceleration),
    entry!("Force", Force),
    entry!("Energy", Energy),
    entry!("Power", Power),
    entry!("Frequency", Frequency),
    entry!("DataVolume", DataVolume),
    entry!("DataThroughput", DataThroughput),
    entry!("Temperature", Temperature),
    entry!("synth::Foo", Foo),
    entry!("synth::Odd", Odd),
    entry!("synth::Soda", Soda),
    entry!("synth::Count", Count),
    entry!("synth::Bare", Bare),
    entry!("alias::Length", alias::Length),
    entry!("alias::Mass", alias::Mass),
];

pub fn subject(what: &SWhat) -> Box<dyn Subject> {
    let ty = match what {
        SWhat::Qty { ty, .. } | SWhat::Unit { ty, .. } | SWhat::Group { ty, .. } => *ty % STABLE.len(),
    };
    (STABLE[ty].make)(STABLE[ty].name, what)
}

pub fn total_units() -> usize {
    STABLE.iter().map(|e| (e.n_units)()).sum()
}
