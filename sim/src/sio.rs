//! Simulated `io::Write` / `io::Read` behind `serde_json::to_writer` /
//! `from_reader` (property C17). Every write / read is a seam call (scheduling
//! point, fault point, re-entrancy point); on top of that a stream may behave
//! in the legal-but-unusual ways real streams do, derived from the operation's
//! `io_seed`: short writes and reads, `ErrorKind::Interrupted`.
use std::cell::Cell;
use std::io;

use crate::exec::in_sim;
use crate::prng::Prng;
use crate::snode::{seam_call, Hit, SeamCell};

#[derive(Default)]
pub struct IoCounts {
    pub short: Cell<u64>,
    pub interrupted: Cell<u64>,
}

pub struct SimWriter<'s, 'a> {
    pub seam: &'s SeamCell<'a>,
    pub buf: Vec<u8>,
    pub rng: Option<Prng>,
    pub counts: &'s IoCounts,
}

impl io::Write for SimWriter<'_, '_> {
    fn write(&mut self, data: &[u8]) -> io::Result<usize> {
        match seam_call(self.seam) {
            Hit::Pass => {}
            _ => return Err(io::Error::new(io::ErrorKind::BrokenPipe, "injected fault")),
        }
        in_sim(|| {
            let mut n = data.len();
            if let Some(r) = self.rng.as_mut() {
                if r.chance(1, 7) {
                    self.counts.interrupted.set(self.counts.interrupted.get() + 1);
                    return Err(io::Error::new(io::ErrorKind::Interrupted, "EINTR"));
                }
                if n > 1 && r.chance(1, 3) {
                    n = 1 + r.below(n - 1);
                    self.counts.short.set(self.counts.short.get() + 1);
                }
            }
            self.buf.extend_from_slice(&data[..n]);
            Ok(n)
        })
    }
    fn flush(&mut self) -> io::Result<()> {
        Ok(())
    }
}

pub struct SimReader<'s, 'a, 'd> {
    pub seam: &'s SeamCell<'a>,
    pub data: &'d [u8],
    pub pos: usize,
    pub rng: Option<Prng>,
    pub counts: &'s IoCounts,
}

impl io::Read for SimReader<'_, '_, '_> {
    fn read(&mut self, out: &mut [u8]) -> io::Result<usize> {
        match seam_call(self.seam) {
            Hit::Pass => {}
            Hit::Eof => return Ok(0),
            Hit::Error => return Err(io::Error::new(io::ErrorKind::ConnectionReset, "injected fault")),
        }
        in_sim(|| {
            let left = self.data.len() - self.pos;
            let mut n = left.min(out.len());
            if let Some(r) = self.rng.as_mut() {
                if r.chance(1, 9) {
                    self.counts.interrupted.set(self.counts.interrupted.get() + 1);
                    return Err(io::Error::new(io::ErrorKind::Interrupted, "EINTR"));
                }
                if n > 1 && r.chance(1, 2) {
                    n = 1 + r.below(n - 1);
                    self.counts.short.set(self.counts.short.get() + 1);
                }
            }
            out[..n].copy_from_slice(&self.data[self.pos..self.pos + n]);
            self.pos += n;
            Ok(n)
        })
    }
}
