//! SplitMix64: the single source of randomness of a simulated run. Every
//! choice (workload, schedule, faults) is drawn from one instance seeded from
//! the run's seed; logging never draws from it.
#[derive(Clone, Debug)]
pub struct Prng(pub u64);

impl Prng {
    pub fn new(seed: u64) -> Self {
        Prng(seed ^ 0x9E37_79B9_7F4A_7C15)
    }
    pub fn next(&mut self) -> u64 {
        self.0 = self.0.wrapping_add(0x9E37_79B9_7F4A_7C15);
        let mut z = self.0;
        z = (z ^ (z >> 30)).wrapping_mul(0xBF58_476D_1CE4_E5B9);
        z = (z ^ (z >> 27)).wrapping_mul(0x94D0_49BB_1331_11EB);
        z ^ (z >> 31)
    }
    /// uniform in 0..n (n > 0)
    pub fn below(&mut self, n: usize) -> usize {
        (self.next() % n as u64) as usize
    }
    /// true with probability num/den
    pub fn chance(&mut self, num: u64, den: u64) -> bool {
        self.next() % den < num
    }
    pub fn pick<'a, T>(&mut self, xs: &'a [T]) -> &'a T {
        &xs[self.below(xs.len())]
    }
}

pub fn fnv64(bytes: &[u8]) -> u64 {
    let mut h: u64 = 0xcbf2_9ce4_8422_2325;
    for b in bytes {
        h ^= *b as u64;
        h = h.wrapping_mul(0x0000_0100_0000_01b3);
    }
    h
}
