//! Driver of the serialisation simulation (property C17):
//!
//!   qsim sgen <seed>                       print the plan of one seed
//!   qsim sexec                             execute the JSON plan list on stdin, in order, in this process
//!   qsim sworker <rnd|sys> <base> <first> <count>
//!   qsim sbatch --seed S --runs N [--jobs J] --tier T --part FILE --replay-dir DIR [--source sys]
//!   qsim sreplay <file>
//!   qsim sfree <base> <first> <count>      free-running executions (for Miri)
use std::collections::BTreeSet;
use std::io::{Read, Write};
use std::process::{Command, Stdio};
use std::time::Instant;

use serde::{Deserialize, Serialize};
use serde_json::json;

use crate::exec::Violation;
use crate::prng;
use crate::sexec::{execute, execute_mode, SRunResult, SRunStats};
use crate::splan::{self, Route, SOp, SPlan, SWhat};
use crate::subjects::amt;

pub const PROP: &str = "C17";

fn make_plan(src: &str, base: u64, i: u64) -> SPlan {
    if src == "sys" {
        splan::systematic(i)
    } else if let Some(ops) = src.strip_prefix("soak:") {
        splan::soak(i, ops.parse().unwrap_or(1000))
    } else {
        splan::generate(crate::run_seed(base, i))
    }
}

#[derive(Default, Serialize, Deserialize)]
struct WorkerOut {
    runs: u64,
    stats_sum: SRunStats,
    nontrivial_runs: u64,
    trace_hashes: Vec<u64>,
    subject_route_hashes: Vec<u64>,
    units_used: Vec<(usize, usize)>,
    fault_then_judged_runs: u64,
    loghash: u64,
    samples: Vec<serde_json::Value>,
    failure: Option<(u64, SPlan, Vec<Violation>)>,
}

fn add(a: &mut SRunStats, b: &SRunStats) {
    a.ops += b.ops;
    a.judged += b.judged;
    a.seams += b.seams;
    a.alloc_seams += b.alloc_seams;
    a.fn_seams += b.fn_seams;
    a.switches += b.switches;
    a.switches_inside_op += b.switches_inside_op;
    a.switches_at_alloc += b.switches_at_alloc;
    a.switches_at_fn_entry += b.switches_at_fn_entry;
    a.ser_error_fired += b.ser_error_fired;
    a.ser_panic_fired += b.ser_panic_fired;
    a.de_error_fired += b.de_error_fired;
    a.de_panic_fired += b.de_panic_fired;
    a.de_eof_fired += b.de_eof_fired;
    a.nested_fired += b.nested_fired;
    a.short_io += b.short_io;
    a.interrupted_io += b.interrupted_io;
    a.ops_after_fault_same_thread += b.ops_after_fault_same_thread;
    a.stalls += b.stalls;
}

fn what_units(w: &SWhat, out: &mut BTreeSet<(usize, usize)>) {
    match w {
        SWhat::Qty { ty, unit, .. } | SWhat::Unit { ty, unit } => {
            out.insert((*ty, *unit));
        }
        SWhat::Group { ty, items, .. } => {
            for (u, _) in items {
                out.insert((*ty, *u));
            }
        }
    }
}

fn worker(src: &str, base: u64, first: u64, count: u64) -> WorkerOut {
    crate::quiet_panics();
    {
        let (src, secs) = (src.to_string(), crate::hang_secs(30));
        crate::watchdog(secs, move |i| {
            let out = WorkerOut { runs: i - first, failure: Some((i, make_plan(&src, base, i), vec![crate::hang_violation(secs)])), ..WorkerOut::default() };
            println!("{}", serde_json::to_string(&out).unwrap());
            std::process::exit(0);
        });
    }
    let mut out = WorkerOut::default();
    let mut traces = BTreeSet::new();
    let mut subj = BTreeSet::new();
    let mut units = BTreeSet::new();
    let mut lh: u64 = 0xcbf2_9ce4_8422_2325;
    for i in first..first + count {
        crate::PROGRESS.store(i, std::sync::atomic::Ordering::Relaxed);
        let plan = make_plan(src, base, i);
        let res = execute(&plan);
        out.runs += 1;
        add(&mut out.stats_sum, &res.stats);
        if res.stats.nontrivial {
            out.nontrivial_runs += 1;
            if traces.len() < 200_000 {
                traces.insert(res.stats.trace_hash ^ prng::fnv64(serde_json::to_string(&plan.threads).unwrap().as_bytes()));
            }
        }
        if res.stats.ops_after_fault_same_thread > 0 {
            out.fault_then_judged_runs += 1;
        }
        for t in &plan.threads {
            for op in t {
                what_units(&op.what, &mut units);
                if subj.len() < 400_000 {
                    subj.insert(prng::fnv64(serde_json::to_string(&(&op.what, &op.route)).unwrap().as_bytes()));
                }
            }
        }
        for l in &res.log {
            lh = prng::fnv64(&[&lh.to_le_bytes()[..], l.as_bytes()].concat());
        }
        if out.samples.len() < 2 && res.stats.nontrivial && res.stats.switches_inside_op > 0 {
            out.samples.push(json!({"seed": plan.seed, "threads": plan.threads.len(), "log": res.log, "stats": res.stats}));
        }
        if !res.violations.is_empty() {
            out.failure = Some((i, plan, res.violations));
            break;
        }
    }
    crate::PROGRESS.store(u64::MAX, std::sync::atomic::Ordering::Relaxed);
    out.trace_hashes = traces.into_iter().collect();
    out.subject_route_hashes = subj.into_iter().collect();
    out.units_used = units.into_iter().collect();
    out.loghash = lh;
    out
}

#[derive(Serialize, Deserialize)]
struct ExecOut {
    results: Vec<SRunResult>,
}

fn exec_stdin() -> i32 {
    crate::quiet_panics();
    let mut s = String::new();
    std::io::stdin().read_to_string(&mut s).unwrap();
    let plans: Vec<SPlan> = match serde_json::from_str(&s) {
        Ok(p) => p,
        Err(e) => {
            eprintln!("bad plan list: {e}");
            return 2;
        }
    };
    let secs = crate::hang_secs(10);
    crate::watchdog(secs, move |_| {
        let hung = SRunResult { violations: vec![crate::hang_violation(secs)], stats: SRunStats::default(), log: vec!["the run hangs".into()] };
        println!("{}", serde_json::to_string(&ExecOut { results: vec![hung] }).unwrap());
        std::process::exit(0);
    });
    let mut results = Vec::new();
    for (i, p) in plans.iter().enumerate() {
        crate::PROGRESS.store(i as u64, std::sync::atomic::Ordering::Relaxed);
        results.push(execute(p));
    }
    crate::PROGRESS.store(u64::MAX, std::sync::atomic::Ordering::Relaxed);
    println!("{}", serde_json::to_string(&ExecOut { results }).unwrap());
    0
}

fn exec_child_full(plans: &[SPlan]) -> Option<SRunResult> {
    let exe = std::env::current_exe().ok()?;
    let mut ch = Command::new(exe).arg("sexec").stdin(Stdio::piped()).stdout(Stdio::piped()).stderr(Stdio::null()).spawn().ok()?;
    ch.stdin.take()?.write_all(serde_json::to_string(plans).ok()?.as_bytes()).ok()?;
    let o = ch.wait_with_output().ok()?;
    let out: ExecOut = serde_json::from_slice(&o.stdout).ok()?;
    out.results.into_iter().last()
}

fn fails_with(plans: &[SPlan], kind: &str) -> bool {
    match exec_child_full(plans) {
        Some(r) => r.violations.iter().any(|v| v.kind == kind),
        None => false,
    }
}

// ------------------------------------------------------------------ minimiser

fn simpler_what(w: &SWhat) -> Vec<SWhat> {
    let mut out = Vec::new();
    match w {
        SWhat::Qty { ty, unit, amount } => {
            if *amount != amt::simple() {
                out.push(SWhat::Qty { ty: *ty, unit: *unit, amount: amt::simple() });
            }
            if *unit != 0 {
                out.push(SWhat::Qty { ty: *ty, unit: 0, amount: *amount });
            }
        }
        SWhat::Unit { ty, unit } => {
            if *unit != 0 {
                out.push(SWhat::Unit { ty: *ty, unit: 0 });
            }
        }
        SWhat::Group { ty, items, form } => {
            if let Some((u, a)) = items.first() {
                out.push(SWhat::Qty { ty: *ty, unit: *u, amount: *a });
            }
            if let Some((u, a)) = items.last() {
                out.push(SWhat::Qty { ty: *ty, unit: *u, amount: *a });
            }
            if *form != 0 {
                out.push(SWhat::Group { ty: *ty, items: items.clone(), form: 0 });
            }
        }
    }
    out
}

fn simpler_op(op: &SOp) -> Vec<SOp> {
    let mut out = Vec::new();
    let mut with = |f: &dyn Fn(&mut SOp)| {
        let mut x = op.clone();
        f(&mut x);
        if x != *op {
            out.push(x);
        }
    };
    with(&|x| x.ser_fault = None);
    with(&|x| x.de_fault = None);
    with(&|x| x.nested = None);
    with(&|x| x.io_seed = 0);
    with(&|x| x.binary = false);
    with(&|x| x.from_model = false);
    with(&|x| x.mode = 0);
    with(&|x| {
        if let Some((_, f)) = x.ser_fault {
            x.ser_fault = Some((0, f))
        }
    });
    with(&|x| {
        if let Some((_, f)) = x.de_fault {
            x.de_fault = Some((0, f))
        }
    });
    with(&|x| {
        if x.ser_fault.is_none() && x.de_fault.is_none() && x.nested.is_none() {
            x.route = Route::JsonString
        }
    });
    for w in simpler_what(&op.what) {
        let mut x = op.clone();
        x.what = w;
        out.push(x);
    }
    if let Some((p, k, w)) = &op.nested {
        for w2 in simpler_what(w) {
            let mut x = op.clone();
            x.nested = Some((*p, *k, w2));
            out.push(x);
        }
    }
    out
}

/// Tries the single-step reductions of a plan list one at a time, most aggressive
/// first; returns the first one `accept` takes. Candidates are built lazily: a
/// history can be thousands of plans long, so they must not all exist at once.
fn reduce_once(plans: &[SPlan], accept: &mut dyn FnMut(&[SPlan]) -> bool) -> Option<Vec<SPlan>> {
    macro_rules! offer {
        ($c:expr) => {{
            let c: Vec<SPlan> = $c;
            if accept(&c) {
                return Some(c);
            }
        }};
    }
    // history: the last plan alone, then earlier plans in halving chunks, then one by one
    if plans.len() > 1 {
        offer!(vec![plans.last().unwrap().clone()]);
        let hist = plans.len() - 1;
        let mut size = hist / 2;
        while size >= 2 {
            let mut start = 0;
            while start + size <= hist {
                let mut c = plans.to_vec();
                c.drain(start..start + size);
                offer!(c);
                start += size;
            }
            size /= 2;
        }
        if hist <= 64 {
            for i in 0..hist {
                let mut c = plans.to_vec();
                c.remove(i);
                offer!(c);
            }
        }
    }
    // shrink plans, the violating (last) one first; with a long history only the last few
    let lo = plans.len().saturating_sub(4);
    for pi in (lo..plans.len()).rev() {
        let p = &plans[pi];
        macro_rules! put {
            ($q:expr) => {{
                let q: SPlan = $q;
                if q.threads.iter().any(|t| !t.is_empty()) {
                    let mut c = plans.to_vec();
                    c[pi] = q;
                    offer!(c);
                }
            }};
        }
        if p.threads.len() > 1 {
            for t in 0..p.threads.len() {
                let mut q = p.clone();
                q.threads.remove(t);
                put!(q);
            }
        }
        for t in 0..p.threads.len() {
            let len = p.threads[t].len();
            let mut size = len / 2;
            while size >= 2 {
                let mut start = 0;
                while start + size <= len {
                    let mut q = p.clone();
                    q.threads[t].drain(start..start + size);
                    put!(q);
                    start += size;
                }
                size /= 2;
            }
            for o in 0..len {
                let mut q = p.clone();
                q.threads[t].remove(o);
                put!(q);
            }
        }
        for t in 0..p.threads.len() {
            for o in 0..p.threads[t].len() {
                for x in simpler_op(&p.threads[t][o]) {
                    let mut q = p.clone();
                    q.threads[t][o] = x;
                    put!(q);
                }
            }
        }
        if p.repeat > 1 {
            for r in [1, p.repeat / 2, p.repeat - p.repeat / 4, p.repeat - 1] {
                if r < p.repeat && r >= 1 {
                    let mut q = p.clone();
                    q.repeat = r;
                    put!(q);
                }
            }
        }
        if p.alloc_seams {
            let mut q = p.clone();
            q.alloc_seams = false;
            put!(q);
        }
        if p.sched.iter().any(|&b| b != 0) {
            let mut q = p.clone();
            q.sched = vec![0];
            put!(q);
            for k in 0..p.sched.len().min(64) {
                if p.sched[k] != 0 {
                    let mut q = p.clone();
                    q.sched[k] = 0;
                    put!(q);
                }
            }
        }
    }
    None
}

fn minimise(mut plans: Vec<SPlan>, kind: &str) -> (Vec<SPlan>, u64) {
    let started = Instant::now();
    let budget = std::time::Duration::from_secs(
        std::env::var("VERIF_MINIMISE_SECS").ok().and_then(|s| s.parse().ok()).unwrap_or(60),
    );
    let mut tried = 0u64;
    loop {
        let mut accept = |cand: &[SPlan]| {
            if started.elapsed() > budget || tried >= 3000 {
                return false;
            }
            tried += 1;
            fails_with(cand, kind)
        };
        match reduce_once(&plans, &mut accept) {
            Some(smaller) => plans = smaller,
            None => break,
        }
    }
    (plans, tried)
}

// ---------------------------------------------------------------------- batch

#[derive(Serialize, Deserialize)]
struct Replay {
    property: String,
    backend: String,
    base_seed: u64,
    run_index: u64,
    kind: String,
    violation: Violation,
    minimised: bool,
    candidates_tried: u64,
    #[serde(default)]
    trace: Vec<String>,
    plans: Vec<SPlan>,
    replay: String,
}

fn arg(args: &[String], name: &str) -> Option<String> {
    args.iter().position(|a| a == name).and_then(|i| args.get(i + 1).cloned())
}

fn worker_hash_prefix(exe: &std::path::Path, src: &str, seed: u64, n: u64) -> Option<u64> {
    let o = Command::new(exe).args(["sworker", src, &seed.to_string(), "0", &n.to_string()]).stderr(Stdio::null()).output().ok()?;
    serde_json::from_slice::<WorkerOut>(&o.stdout).ok().map(|w| w.loghash)
}

fn batch(args: &[String]) -> i32 {
    let t0 = Instant::now();
    if !crate::ssubj::declared_tables_fit() {
        eprintln!("HARNESS ERROR: the synthetic types do not have the number of units their declarations say");
        return 2;
    }
    let seed: u64 = arg(args, "--seed").and_then(|s| s.parse().ok()).unwrap_or(0);
    let src = arg(args, "--source").unwrap_or_else(|| "rnd".into());
    let mut runs: u64 = arg(args, "--runs").and_then(|s| s.parse().ok()).unwrap_or(1000);
    if src == "sys" {
        runs = splan::sys_total();
    }
    if src.starts_with("soak:") {
        runs = splan::soak_total(); // one long single-thread history per type, each in a process of its own
    }
    let jobs: u64 = arg(args, "--jobs").and_then(|s| s.parse().ok()).unwrap_or(16).max(1);
    let tier = arg(args, "--tier").unwrap_or_else(|| "quick".into());
    let part = arg(args, "--part").unwrap_or_else(|| "part.json".into());
    let replay_dir = arg(args, "--replay-dir").unwrap_or_else(|| ".".into());
    let exe = std::env::current_exe().unwrap();

    // --chunk K: many short-lived worker processes of K runs each ("cold" processes: state a
    // process accumulates on first use of a type is young in every one of them); default: one
    // long-lived worker per job
    let chunk = arg(args, "--chunk").and_then(|s| s.parse::<u64>().ok()).filter(|&k| k > 0).unwrap_or((runs + jobs - 1) / jobs);
    let spawn = |first: u64, n: u64| {
        Command::new(&exe)
            .args(["sworker", &src, &seed.to_string(), &first.to_string(), &n.to_string()])
            .stdout(Stdio::piped())
            .stderr(Stdio::inherit())
            .spawn()
            .expect("spawn worker")
    };
    let mut pending = std::collections::VecDeque::new();
    let mut first = 0;
    while first < runs {
        let n = chunk.min(runs - first);
        pending.push_back((first, n));
        first += n;
    }
    let mut running = std::collections::VecDeque::new();
    let mut stop_spawning = false;
    while running.len() < jobs as usize {
        match pending.pop_front() {
            Some((f, n)) => running.push_back((f, n, spawn(f, n))),
            None => break,
        }
    }
    let recheck_n = if src.starts_with("soak:") {
        1
    } else if arg(args, "--chunk").is_some() {
        runs.min(300)
    } else {
        runs.min(2000)
    };
    let mut total = SRunStats::default();
    let (mut nruns, mut nontrivial_runs, mut fault_then) = (0u64, 0u64, 0u64);
    let mut traces = BTreeSet::new();
    let mut subj = BTreeSet::new();
    let mut units = BTreeSet::new();
    let mut samples = Vec::new();
    let mut failures = Vec::new();
    let mut first_ok = false;
    while let Some((first, n, ch)) = running.pop_front() {
        let o = ch.wait_with_output().expect("worker");
        // once a violation has been found no further workers are started (in a changed tree
        // every one of them may cost a hang time-out); those already running are collected
        if !stop_spawning {
            if let Some((f2, n2)) = pending.pop_front() {
                running.push_back((f2, n2, spawn(f2, n2)));
            }
        }
        let w: WorkerOut = match serde_json::from_slice(&o.stdout) {
            Ok(w) => w,
            Err(e) => {
                eprintln!("HARNESS ERROR: worker {first}+{n} produced no result ({e}), status {:?}", o.status);
                return 2;
            }
        };
        nruns += w.runs;
        nontrivial_runs += w.nontrivial_runs;
        fault_then += w.fault_then_judged_runs;
        add(&mut total, &w.stats_sum);
        traces.extend(w.trace_hashes.iter().copied());
        subj.extend(w.subject_route_hashes.iter().copied());
        units.extend(w.units_used.iter().copied());
        if samples.len() < 3 {
            samples.extend(w.samples.iter().cloned().take(1));
        }
        if let Some(f) = &w.failure {
            failures.push((first, f.clone()));
            stop_spawning = true;
        }
        if first == 0 {
            first_ok = true;
        }
    }
    let mut deterministic = serde_json::Value::Null;
    if first_ok && failures.is_empty() {
        let a = worker_hash_prefix(&exe, &src, seed, recheck_n);
        let b = worker_hash_prefix(&exe, &src, seed, recheck_n);
        deterministic = json!({"runs_rechecked": recheck_n, "identical": a.is_some() && a == b});
        if a.is_none() || a != b {
            eprintln!("HARNESS ERROR: two executions of the same {recheck_n} seeds differ");
            return 2;
        }
    }

    let mut exit = 0;
    let mut violations_reported = 0;
    failures.sort_by_key(|f| f.0 + (f.1).0);
    if let Some((_first, (idx, plan, vs))) = failures.into_iter().next() {
        let v = vs[0].clone();
        let mut plans = vec![plan.clone()];
        let mut reproduced = fails_with(&plans, &v.kind);
        if !reproduced {
            let chunk_first = (idx / chunk) * chunk;
            plans = (chunk_first..=idx).map(|i| make_plan(&src, seed, i)).collect();
            reproduced = fails_with(&plans, &v.kind);
        }
        let (plans, tried, minimised) = if reproduced {
            let (p, t) = minimise(plans, &v.kind);
            (p, t, true)
        } else {
            (plans, 0, false)
        };
        let final_run = exec_child_full(&plans);
        let trace = final_run.as_ref().map(|r| r.log.clone()).unwrap_or_default();
        let final_v = final_run.and_then(|r| r.violations.into_iter().find(|x| x.kind == v.kind)).unwrap_or(v.clone());
        let path = if src.starts_with("soak:") {
            format!("{}/{}-{}-soak-{}.json", replay_dir, PROP, amt::BACKEND, idx)
        } else if src == "sys" {
            format!("{}/{}-{}-systematic-{}.json", replay_dir, PROP, amt::BACKEND, idx)
        } else {
            format!("{}/{}-{}-seed{}-run{}.json", replay_dir, PROP, amt::BACKEND, seed, idx)
        };
        let rp = Replay {
            property: PROP.into(),
            backend: amt::BACKEND.into(),
            base_seed: seed,
            run_index: idx,
            kind: v.kind.clone(),
            violation: final_v.clone(),
            minimised,
            candidates_tried: tried,
            trace,
            plans,
            replay: format!("/verif/check {} --replay {}", PROP, path),
        };
        std::fs::create_dir_all(&replay_dir).ok();
        std::fs::write(&path, serde_json::to_string_pretty(&rp).unwrap()).expect("write replay");
        println!(
            "violation: {} [{}] {} via {}: expected {:?}, got {:?} (thread {}, op {}{}; reproduced in fresh process: {}; minimised with {} candidates)",
            final_v.kind, amt::BACKEND, final_v.subject, final_v.spec, final_v.expected, final_v.actual, final_v.thread, final_v.op,
            if final_v.nested { ", nested" } else { "" }, reproduced, tried
        );
        println!("VIOLATION property={} replay={}", PROP, path);
        violations_reported = 1;
        exit = 1;
    }

    let wall = t0.elapsed().as_secs_f64();
    let partv = json!({
        "backend": amt::BACKEND,
        "source": src,
        "tier": tier,
        "seed": seed,
        "runs": nruns,
        "nontrivial_runs": nontrivial_runs,
        "distinct_nontrivial_runs": traces.len(),
        "distinct_subject_route_cases": subj.len(),
        "runs_with_operation_after_fault_on_same_thread": fault_then,
        "ops": total.ops,
        "ops_judged": total.judged,
        "seams": total.seams,
        "thread_switches": total.switches,
        "thread_switches_inside_an_operation": total.switches_inside_op,
        "allocator_seams": total.alloc_seams,
        "thread_switches_at_an_allocation": total.switches_at_alloc,
        "function_entry_seams": total.fn_seams,
        "thread_switches_at_a_function_entry": total.switches_at_fn_entry,
        "faults_fired": {
            "serializer_or_writer_error": total.ser_error_fired,
            "serializer_or_writer_panic_caught": total.ser_panic_fired,
            "deserializer_or_reader_error": total.de_error_fired,
            "deserializer_or_reader_panic_caught": total.de_panic_fired,
            "reader_truncated_eof": total.de_eof_fired,
            "reentrant_round_trip_from_inside_seam": total.nested_fired,
            "short_writes_and_reads": total.short_io,
            "interrupted_writes_and_reads": total.interrupted_io,
        },
        "stalls": total.stalls,
        "determinism": deterministic,
        "violations": violations_reported,
        "samples": samples,
        "units_available": crate::ssubj::total_units(),
        "units_used": units.len(),
        "types_available": crate::ssubj::STABLE.len(),
        "wall_s": wall,
        "runs_per_hour": (nruns as f64 / wall * 3600.0) as u64,
    });
    std::fs::write(&part, serde_json::to_string_pretty(&partv).unwrap()).expect("write part");
    println!(
        "[{} {}{}] runs={} ops={} judged={} seams={} switches_in_op={} faults(ser err/panic, de err/panic/eof, nested)={}/{} {}/{}/{} {} distinct_nontrivial_runs={} wall={:.1}s",
        PROP, amt::BACKEND, if src == "sys" { " systematic" } else if src.starts_with("soak:") { " soak" } else { "" }, nruns, total.ops, total.judged, total.seams, total.switches_inside_op,
        total.ser_error_fired, total.ser_panic_fired, total.de_error_fired, total.de_panic_fired, total.de_eof_fired, total.nested_fired,
        traces.len(), wall
    );
    exit
}

fn replay(path: &str) -> i32 {
    crate::quiet_panics();
    let s = match std::fs::read_to_string(path) {
        Ok(s) => s,
        Err(e) => {
            eprintln!("cannot read {path}: {e}");
            return 2;
        }
    };
    let rp: Replay = match serde_json::from_str(&s) {
        Ok(r) => r,
        Err(e) => {
            eprintln!("bad replay file: {e}");
            return 2;
        }
    };
    if rp.backend != amt::BACKEND {
        eprintln!("replay file is for back-end {}, this binary is {}", rp.backend, amt::BACKEND);
        return 2;
    }
    {
        let (secs, kind, path) = (crate::hang_secs(10), rp.kind.clone(), path.to_string());
        crate::watchdog(secs, move |_| {
            println!("  the run hangs: no progress for {secs} s");
            if kind == "hang" {
                println!("violation reproduced: hang");
                println!("VIOLATION property={} replay={}", PROP, path);
                std::process::exit(1);
            }
            println!("HARNESS ERROR: the replay hangs, the recorded violation was {kind}");
            std::process::exit(2);
        });
    }
    let mut last = None;
    for (i, p) in rp.plans.iter().enumerate() {
        crate::PROGRESS.store(i as u64, std::sync::atomic::Ordering::Relaxed);
        last = Some(execute(p));
    }
    crate::PROGRESS.store(u64::MAX, std::sync::atomic::Ordering::Relaxed);
    let res = last.unwrap();
    for l in &res.log {
        println!("  {l}");
    }
    match res.violations.iter().find(|v| v.kind == rp.kind) {
        Some(v) => {
            println!("violation reproduced: {} {} via {}: expected {:?}, got {:?}", v.kind, v.subject, v.spec, v.expected, v.actual);
            println!("VIOLATION property={} replay={}", PROP, path);
            1
        }
        None => {
            println!("not reproduced: no {} violation in this tree", rp.kind);
            0
        }
    }
}

pub fn main(args: &[String]) -> Option<i32> {
    let g = |i: usize| args.get(i).and_then(|s| s.parse::<u64>().ok()).unwrap_or(0);
    Some(match args.get(1).map(String::as_str) {
        Some("sgen") => {
            println!("{}", serde_json::to_string_pretty(&splan::generate(g(2))).unwrap());
            0
        }
        Some("sexec") => exec_stdin(),
        Some("sworker") => {
            let out = worker(args.get(2).map(String::as_str).unwrap_or("rnd"), g(3), g(4), g(5));
            println!("{}", serde_json::to_string(&out).unwrap());
            0
        }
        Some("sfree") => {
            crate::quiet_panics();
            let (mut ops, mut bad) = (0u64, 0u64);
            for i in g(3)..g(3) + g(4) {
                let plan = splan::generate_with(crate::run_seed(g(2), i), true);
                let res = execute_mode(&plan, true);
                ops += res.stats.ops;
                for v in res.violations.iter() {
                    bad += 1;
                    println!("FREE-VIOLATION run={} seed={} {} {} {}: expected {:?} got {:?}", i, plan.seed, v.kind, v.subject, v.spec, v.expected, v.actual);
                }
            }
            println!("FREE runs={} ops={} violations={}", g(4), ops, bad);
            if bad > 0 {
                1
            } else {
                0
            }
        }
        Some("sbatch") => batch(args),
        Some("sreplay") => replay(args.get(2).map(String::as_str).unwrap_or("")),
        _ => return None,
    })
}
