//! Reference model of the text a displayed value must produce (property C15),
//! written from the property statement, independently of `Quantity::fmt`:
//!
//!   text   = pad( sign ++ body ++ " " ++ symbol )
//!   body   = the amount type's own `Display` of |amount|, with `.p` if a
//!            precision is given                      (trusted primitive: std / fpdec)
//!   sign   = "-" for negative amounts, "+" for non-negative ones under the
//!            `+` flag, nothing otherwise            ("a single leading minus")
//!   pad    = Rust's ordinary rules for a numeric-like item: nothing if the
//!            text already has `width` characters; under the `0` flag zeros
//!            between sign and body; otherwise the fill character on the side(s)
//!            given by the alignment, right-aligned by default.
//!
//! Units display as their symbol under ordinary *string* formatting rules; that
//! is modelled by giving the symbol `String` to std under the same literal
//! specification (trusted primitive). Values whose unit symbol is empty display
//! as the bare amount under the specification (trusted primitive likewise).
use crate::specs::{ALIGNS, FILLS};
use serde::{Deserialize, Serialize};

#[derive(Clone, Copy, Debug, Default, PartialEq, Eq, Hash, Serialize, Deserialize)]
pub struct Spec {
    pub fill: usize,
    pub align: usize,
    pub plus: bool,
    pub alt: bool,
    pub zero: bool,
    pub width: Option<usize>,
    pub prec: Option<usize>,
}

impl Spec {
    pub fn is_plain(&self) -> bool {
        *self == Spec::default()
    }
    /// The specification as it would be written in a format string.
    pub fn literal(&self) -> String {
        let mut s = String::from("{:");
        if let Some(c) = FILLS[self.fill] {
            s.push(c);
        }
        if let Some(c) = ALIGNS[self.align] {
            s.push(c);
        }
        if self.plus {
            s.push('+');
        }
        if self.alt {
            s.push('#');
        }
        if self.zero {
            s.push('0');
        }
        if let Some(w) = self.width {
            s.push_str(&w.to_string());
        }
        if let Some(p) = self.prec {
            s.push('.');
            s.push_str(&p.to_string());
        }
        s.push('}');
        s
    }
    /// fill given without alignment is not expressible
    pub fn normalise(&mut self) {
        if self.align == 0 {
            self.fill = 0;
        }
    }
}

#[derive(Clone, Copy, PartialEq, Eq)]
pub enum WidthUnit {
    Chars,
    Bytes,
}

/// `pad(sign ++ rest)` for a numeric-like item.
pub fn pad_numeric(spec: &Spec, negative: bool, rest: &str, unit: WidthUnit) -> String {
    let sign = if negative {
        "-"
    } else if spec.plus {
        "+"
    } else {
        ""
    };
    let len = sign.len()
        + match unit {
            WidthUnit::Chars => rest.chars().count(),
            WidthUnit::Bytes => rest.len(),
        };
    let mut out = String::new();
    match spec.width {
        Some(w) if w > len => {
            let pad = w - len;
            if spec.zero {
                out.push_str(sign);
                out.extend(std::iter::repeat('0').take(pad));
                out.push_str(rest);
            } else {
                let fill = FILLS[spec.fill].unwrap_or(' ');
                let (l, r) = match ALIGNS[spec.align].unwrap_or('>') {
                    '<' => (0, pad),
                    '^' => (pad / 2, pad - pad / 2),
                    _ => (pad, 0),
                };
                out.extend(std::iter::repeat(fill).take(l));
                out.push_str(sign);
                out.push_str(rest);
                out.extend(std::iter::repeat(fill).take(r));
            }
        }
        _ => {
            out.push_str(sign);
            out.push_str(rest);
        }
    }
    out
}
