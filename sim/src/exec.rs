//! Executes a plan: real OS threads, exactly one of which runs at any time.
//!
//! The seam is the `fmt::Write` sink every display writes into. Each write is
//!   * a scheduling point — the simulator decides, from the plan's decision
//!     stream, which caller thread proceeds; all others stay parked, so the
//!     interleaving is chosen by the plan and not by the OS;
//!   * a fault point — the sink may return `fmt::Error` or panic there;
//!   * a re-entrancy point — the sink may itself display a value.
//! The oracle judges every display that completed `Ok` on a sink that never
//! failed: the concatenation of what the sink received must be the model text.
use std::fmt;
use std::panic::{catch_unwind, AssertUnwindSafe};
use std::sync::{Arc, Condvar, Mutex};
use std::time::Duration;

use serde::{Deserialize, Serialize};

use crate::model::Spec;
use crate::plan::{FaultKind, Op, Plan};
use crate::specs::render;
use crate::subjects::{amt, shown, Shown};

#[derive(Clone, Debug, Serialize, Deserialize)]
pub struct Violation {
    /// text | width_in_bytes | err_without_fault | panic_without_fault | parse_back | frac_digits | dec_precision_clamped_18 | ok_despite_sink_error
    pub kind: String,
    pub thread: usize,
    pub op: usize,
    pub nested: bool,
    pub subject: String,
    pub spec: String,
    pub expected: String,
    pub actual: String,
}

#[derive(Clone, Debug, Default, Serialize, Deserialize)]
pub struct RunStats {
    pub ops: u64,
    pub judged: u64,
    pub seams: u64,
    #[serde(default)]
    pub alloc_seams: u64,
    pub switches: u64,
    pub switches_inside_op: u64,
    #[serde(default)]
    pub switches_at_alloc: u64,
    #[serde(default)]
    pub fn_seams: u64,
    #[serde(default)]
    pub switches_at_fn_entry: u64,
    pub sink_error_fired: u64,
    #[serde(default)]
    pub sink_reject_fired: u64,
    pub sink_panic_fired: u64,
    pub nested_fired: u64,
    pub ops_after_fault_same_thread: u64,
    pub stalls: u64,
    pub trace_hash: u64,
    pub nontrivial: bool,
}

#[derive(Clone, Debug, Serialize, Deserialize)]
pub struct RunResult {
    pub violations: Vec<Violation>,
    pub stats: RunStats,
    /// per thread, per op: outcome and text (for logs / determinism diffing)
    pub log: Vec<String>,
}

// ------------------------------------------------------------- allocator seam
//
// The global allocator is the second seam the simulator owns: while a simulated
// caller thread is inside a library `Display` call, every allocation the
// library makes (symbol strings, `format!` buffers) is a scheduling point, so a
// thread can be suspended between two internal steps of a display, not only at
// its sink writes. Allocation counts are a deterministic function of code and
// plan, so runs stay repeatable. Allocation *failure* is not injected: it
// aborts the process (DESIGN.md §3.3).

use std::alloc::{GlobalAlloc, Layout, System};
use std::cell::Cell;

thread_local! {
    /// (scheduler, thread id) while the thread is inside a library display call
    /// of a run with allocator seams enabled; null otherwise
    static ALLOC_SEAM: Cell<(*const Sched, usize)> = const { Cell::new((std::ptr::null(), 0)) };
    /// set while simulator code runs on this thread (it allocates itself)
    static IN_SIM: Cell<bool> = const { Cell::new(false) };
}

pub struct SeamAlloc;

#[allow(unsafe_code)]
unsafe impl GlobalAlloc for SeamAlloc {
    unsafe fn alloc(&self, layout: Layout) -> *mut u8 {
        alloc_seam();
        unsafe { System.alloc(layout) }
    }
    unsafe fn dealloc(&self, ptr: *mut u8, layout: Layout) {
        unsafe { System.dealloc(ptr, layout) }
    }
    unsafe fn realloc(&self, ptr: *mut u8, layout: Layout, new_size: usize) -> *mut u8 {
        alloc_seam();
        unsafe { System.realloc(ptr, layout, new_size) }
    }
}

#[inline]
fn alloc_seam() {
    seam_from_library(1)
}

/// kind: 1 = allocation, 2 = function entry
fn seam_from_library(kind: u8) {
    // `try_with`: the allocator also runs while thread-locals are torn down
    let _ = ALLOC_SEAM.try_with(|c| {
        let (sched, me) = c.get();
        if !sched.is_null() && !IN_SIM.with(|s| s.replace(true)) {
            // SAFETY: the pointer is set by `run_op` from an `Arc<Sched>` that
            // outlives the operation and is cleared before `run_op` returns
            #[allow(unsafe_code)]
            unsafe { &*sched }.seam_kind(me, true, kind);
            IN_SIM.with(|s| s.set(false));
        }
    });
}

/// Function-entry seam: in the `fn-seam` build (nightly, `rustc_fnseam.sh`,
/// `fnseam-rt`) every function entry in the library crates and in the code
/// monomorphised from them calls this hook, which makes each of them a scheduling
/// point while a caller thread is inside a library display of a run that has
/// `alloc_seams` on.
#[cfg(feature = "fn-seam")]
pub fn fn_seam_hook() {
    seam_from_library(2);
}

/// Runs simulator code with allocator seams suppressed.
pub(crate) fn in_sim<R>(f: impl FnOnce() -> R) -> R {
    let was = IN_SIM.with(|s| s.replace(true));
    let r = f();
    IN_SIM.with(|s| s.set(was));
    r
}

/// Runs code of the library under test (called back from simulator code, e.g.
/// a serializer handing a field to its `Serialize` impl): allocator seams active.
#[allow(dead_code)]
pub(crate) fn in_lib<R>(f: impl FnOnce() -> R) -> R {
    let was = IN_SIM.with(|s| s.replace(false));
    let r = catch_unwind(AssertUnwindSafe(f));
    IN_SIM.with(|s| s.set(was));
    match r {
        Ok(r) => r,
        Err(p) => std::panic::resume_unwind(p),
    }
}

/// Runs `f` with the allocator (and function-entry) seams of thread `me` armed,
/// if the run has them enabled.
#[allow(dead_code)]
pub(crate) fn with_library_seams<R>(sched: &Sched, me: usize, enabled: bool, f: impl FnOnce() -> R) -> R {
    if enabled && !sched.free {
        ALLOC_SEAM.with(|c| c.set((sched as *const Sched, me)));
    }
    let r = catch_unwind(AssertUnwindSafe(f));
    ALLOC_SEAM.with(|c| c.set((std::ptr::null(), 0)));
    match r {
        Ok(r) => r,
        Err(p) => std::panic::resume_unwind(p),
    }
}

// ------------------------------------------------------------------ scheduler

pub(crate) struct SchedState {
    pub(crate) current: usize,
    pub(crate) runnable: Vec<bool>,
    /// threads currently waiting for the baton in `wait_for`
    pub(crate) parked: Vec<bool>,
    pub(crate) parked_in_op: Vec<bool>,
    pub(crate) pos: usize,
    pub(crate) trace: Vec<u8>,
    pub(crate) seams: u64,
    pub(crate) alloc_seams: u64,
    pub(crate) fn_seams: u64,
    pub(crate) switches_at_fn_entry: u64,
    pub(crate) switches: u64,
    pub(crate) switches_inside_op: u64,
    pub(crate) switches_at_alloc: u64,
    pub(crate) progress: u64,
    pub(crate) stalls: u64,
    /// OS thread ids of the caller threads (0 = unknown)
    pub(crate) tids: Vec<u32>,
}

pub(crate) struct Sched {
    pub(crate) st: Mutex<SchedState>,
    cv: Condvar,
    decisions: Vec<u8>,
    /// free-running: no baton; whoever executes this process (Miri's seeded
    /// scheduler, which preempts anywhere) decides the interleaving
    pub(crate) free: bool,
}

const STALL: Duration = Duration::from_millis(500);
const POLL: Duration = Duration::from_millis(4);

/// OS thread id of the calling thread (Linux), 0 if it cannot be told.
fn own_tid() -> u32 {
    std::fs::read_link("/proc/thread-self")
        .ok()
        .and_then(|p| p.file_name().and_then(|f| f.to_str()).and_then(|f| f.parse().ok()))
        .unwrap_or(0)
}

/// State of that thread of this process: (sleeping in the kernel, i.e. state S; number of
/// voluntary context switches so far). A thread that is blocked for good sleeps and its
/// count stands still; one that merely waits now and then (a contended lock, a page
/// fault) wakes up in between and the count moves.
fn thread_state(status_path: &str) -> Option<(bool, u64)> {
    // no heap allocation here: a poller that is descheduled while it holds the
    // allocator's lock would make the baton holder sleep on that lock
    use std::io::Read;
    let mut buf = [0u8; 2048];
    let mut f = std::fs::File::open(status_path).ok()?;
    let mut n = 0;
    while n < buf.len() {
        match f.read(&mut buf[n..]) {
            Ok(0) => break,
            Ok(k) => n += k,
            Err(_) => return None,
        }
    }
    let s = std::str::from_utf8(&buf[..n]).ok()?;
    let mut sleeping = None;
    let mut vcs = None;
    for l in s.lines() {
        if let Some(r) = l.strip_prefix("State:") {
            sleeping = Some(r.trim_start().starts_with('S'));
        } else if let Some(r) = l.strip_prefix("voluntary_ctxt_switches:") {
            vcs = r.trim().parse::<u64>().ok();
        }
    }
    Some((sleeping?, vcs?))
}

impl Sched {
    pub(crate) fn new(n: usize, decisions: Vec<u8>, free: bool) -> Self {
        Sched {
            free,
            st: Mutex::new(SchedState {
                current: 0,
                runnable: vec![true; n],
                parked: vec![false; n],
                parked_in_op: vec![false; n],
                pos: 0,
                trace: Vec::new(),
                seams: 0,
                alloc_seams: 0,
                fn_seams: 0,
                switches_at_fn_entry: 0,
                switches: 0,
                switches_inside_op: 0,
                switches_at_alloc: 0,
                progress: 0,
                stalls: 0,
                tids: vec![0; n],
            }),
            cv: Condvar::new(),
            decisions,
        }
    }

    pub(crate) fn choose(&self, st: &mut SchedState, me: Option<usize>) -> Option<usize> {
        let run: Vec<usize> = (0..st.runnable.len()).filter(|&i| st.runnable[i]).collect();
        if run.is_empty() {
            return None;
        }
        let d = if self.decisions.is_empty() { 0 } else { self.decisions[st.pos % self.decisions.len()] };
        st.pos += 1;
        let next = match (d, me) {
            (0, Some(m)) if st.runnable[m] => m,
            (0, _) => run[0],
            (b, _) => run[(b as usize - 1) % run.len()],
        };
        st.trace.push(next as u8);
        Some(next)
    }

    /// Parks the calling thread until it holds the baton. If the holder makes
    /// no progress for STALL (it blocks on something a parked thread owns —
    /// only possible with code that has introduced blocking shared state), the
    /// lowest parked thread takes the baton over so that the run terminates.
    fn wait_for<'a>(&'a self, me: usize, mut st: std::sync::MutexGuard<'a, SchedState>) {
        st.parked[me] = true;
        let mut waited = Duration::ZERO;
        let mut asleep = 0u32;
        let mut last_vcs = u64::MAX;
        let mut path_of: (u32, String) = (0, String::new());
        let mut seen = st.progress;
        while st.current != me {
            let (g, to) = self.cv.wait_timeout(st, POLL).unwrap();
            st = g;
            if st.current == me {
                break;
            }
            if st.progress != seen || !to.timed_out() {
                if st.progress != seen {
                    seen = st.progress;
                    waited = Duration::ZERO;
                    asleep = 0;
                }
                continue;
            }
            waited += POLL;
            // only the lowest parked thread watches the holder (it is the one that would take
            // over); the others just wait, so that at most one thread polls and few contend
            // for the scheduler's mutex
            if (0..st.runnable.len()).find(|&i| st.runnable[i] && st.parked[i]) != Some(me) {
                if waited >= STALL * 4 {
                    waited = Duration::ZERO; // stay patient: the watcher decides
                }
                continue;
            }
            // Is the holder blocked in the kernel? Its OS thread state tells within a
            // few milliseconds (a thread that computes, or that the OS has merely
            // descheduled, is never in state S, and one that waits only briefly wakes up in
            // between, which its count of voluntary context switches shows); the wall-clock
            // limit is the fallback.
            let tid = st.tids[st.current];
            if tid != 0 {
                drop(st); // the holder may want this mutex: do not look at it while holding it
                if path_of.0 != tid {
                    path_of = (tid, format!("/proc/self/task/{}/status", tid));
                }
                let state = thread_state(&path_of.1);
                st = self.st.lock().unwrap();
                if st.current == me {
                    break;
                }
                if st.progress != seen {
                    continue;
                }
                asleep = match state {
                    // asleep at this reading and not woken since the previous one
                    Some((true, vcs)) if vcs == last_vcs => asleep + 1,
                    Some((true, vcs)) => {
                        last_vcs = vcs;
                        1
                    }
                    _ => {
                        last_vcs = u64::MAX;
                        0
                    }
                };
            }
            if asleep >= 6 || waited >= STALL {
                // only a thread that is really parked here can take over (the
                // holder, and threads declared stalled earlier, may all be
                // blocked in the kernel on something a parked thread owns)
                let lowest = (0..st.runnable.len()).find(|&i| st.runnable[i] && st.parked[i]);
                if lowest == Some(me) {
                    st.stalls += 1;
                    st.current = me;
                    st.progress += 1;
                    self.cv.notify_all();
                }
                waited = Duration::ZERO;
                asleep = 0;
                last_vcs = u64::MAX;
                seen = st.progress;
            }
        }
        st.parked[me] = false;
    }

    pub(crate) fn start(&self, me: usize) {
        if self.free {
            return;
        }
        let tid = if cfg!(miri) { 0 } else { own_tid() };
        let mut st = self.st.lock().unwrap();
        st.tids[me] = tid;
        self.wait_for(me, st);
    }

    /// A scheduling point reached by thread `me`.
    pub(crate) fn seam(&self, me: usize, inside_op: bool) {
        in_sim(|| self.seam_kind(me, inside_op, 0))
    }

    pub(crate) fn seam_kind(&self, me: usize, inside_op: bool, kind: u8) {
        if self.free {
            std::thread::yield_now();
            return;
        }
        let mut st = self.st.lock().unwrap();
        if st.current != me {
            // we were declared stalled and somebody else holds the baton
            self.wait_for(me, st);
            return;
        }
        st.seams += 1;
        match kind {
            1 => st.alloc_seams += 1,
            2 => st.fn_seams += 1,
            _ => {}
        }
        st.progress += 1;
        let next = self.choose(&mut st, Some(me)).unwrap();
        if next != me {
            st.switches += 1;
            if inside_op {
                st.switches_inside_op += 1;
            }
            match kind {
                1 => st.switches_at_alloc += 1,
                2 => st.switches_at_fn_entry += 1,
                _ => {}
            }
            st.parked_in_op[me] = inside_op;
            st.current = next;
            self.cv.notify_all();
            self.wait_for(me, st);
        }
    }

    pub(crate) fn finish(&self, me: usize) {
        if self.free {
            return;
        }
        let mut st = self.st.lock().unwrap();
        st.runnable[me] = false;
        st.progress += 1;
        if st.current == me {
            if let Some(next) = self.choose(&mut st, None) {
                st.current = next;
            }
        }
        self.cv.notify_all();
    }
}

// ----------------------------------------------------------------------- sink

struct Collect(String);
impl fmt::Write for Collect {
    fn write_str(&mut self, s: &str) -> fmt::Result {
        self.0.push_str(s);
        Ok(())
    }
}

struct SimSink<'a> {
    sched: &'a Sched,
    me: usize,
    op: &'a Op,
    writes: usize,
    text: String,
    fault_fired: Option<FaultKind>,
    nested: Option<(Outcome, String, Shown, Spec)>,
}

impl fmt::Write for SimSink<'_> {
    fn write_str(&mut self, s: &str) -> fmt::Result {
        // the sink is simulator code: its own allocations are not seams, and
        // a re-entrant display issued from here runs without allocator seams
        let was = IN_SIM.with(|c| c.replace(true));
        let r = catch_unwind(AssertUnwindSafe(|| self.write_str_inner(s)));
        IN_SIM.with(|c| c.set(was));
        match r {
            Ok(r) => r,
            Err(p) => std::panic::resume_unwind(p),
        }
    }
}

impl SimSink<'_> {
    fn write_str_inner(&mut self, s: &str) -> fmt::Result {
        let k = self.writes;
        self.writes += 1;
        self.sched.seam_kind(self.me, true, 0);
        if self.fault_fired == Some(FaultKind::Error) {
            return Err(fmt::Error); // a broken sink stays broken
        }
        if let Some((at, what, spec)) = &self.op.nested {
            if *at == k && self.nested.is_none() {
                let sh = shown(what, spec);
                let mut c = Collect(String::new());
                let out = display_into(&mut c, &sh, spec);
                self.nested = Some((out, c.0, sh, *spec));
            }
        }
        if let Some((at, kind)) = self.op.fault {
            if at == k {
                self.fault_fired = Some(kind);
                match kind {
                    FaultKind::Error | FaultKind::Reject => return Err(fmt::Error),
                    FaultKind::Panic => panic!("simulated sink crash"),
                }
            }
        }
        self.text.push_str(s);
        Ok(())
    }
}

#[derive(Clone, Debug, PartialEq)]
enum Outcome {
    Ok,
    Err,
    Panic(String),
}

fn display_into(sink: &mut dyn fmt::Write, sh: &Shown, spec: &Spec) -> Outcome {
    let r = catch_unwind(AssertUnwindSafe(|| {
        render(sink, spec.fill, spec.align, spec.plus, spec.alt, spec.zero, spec.width, spec.prec, &*sh.value)
    }));
    match r {
        Ok(Ok(())) => Outcome::Ok,
        Ok(Err(_)) => Outcome::Err,
        Err(p) => Outcome::Panic(
            p.downcast_ref::<&str>()
                .map(|s| s.to_string())
                .or_else(|| p.downcast_ref::<String>().cloned())
                .unwrap_or_else(|| "?".into()),
        ),
    }
}

/// The display is made by a `Drop` that runs while the thread unwinds from a panic
/// of the caller (which the caller catches): `std::thread::panicking()` is true
/// while the library formats. A panic inside the display is caught inside the
/// destructor, so it does not turn into an abort.
fn display_while_unwinding(sink: &mut dyn fmt::Write, sh: &Shown, spec: &Spec) -> Outcome {
    struct Guard<'a> {
        sink: &'a mut dyn fmt::Write,
        sh: &'a Shown,
        spec: &'a Spec,
        out: &'a mut Option<Outcome>,
    }
    impl Drop for Guard<'_> {
        fn drop(&mut self) {
            *self.out = Some(display_into(self.sink, self.sh, self.spec));
        }
    }
    let mut out = None;
    let _ = catch_unwind(AssertUnwindSafe(|| {
        let _g = Guard { sink, sh, spec, out: &mut out };
        panic!("simulated panic of the caller: a value is displayed while the thread unwinds");
    }));
    out.unwrap_or_else(|| Outcome::Panic("the display did not run".into()))
}

// ----------------------------------------------------------- thread-exit hook

/// A thread-local object of the caller whose destructor displays a value at thread
/// exit. It is initialised when the caller thread starts, i.e. before any
/// thread-local the library may create on its first display, so those are
/// destroyed first.
struct ExitHook(Option<Box<dyn FnOnce()>>);
impl Drop for ExitHook {
    fn drop(&mut self) {
        if let Some(f) = self.0.take() {
            f();
        }
    }
}
thread_local! {
    static EXIT_HOOK: std::cell::RefCell<ExitHook> = const { std::cell::RefCell::new(ExitHook(None)) };
}

// --------------------------------------------------------------------- oracle

fn judge(sh: &Shown, spec: &Spec, out: &Outcome, text: &str) -> Option<(String, String, String)> {
    let expect = match &sh.expect {
        Some(e) => e,
        None => return None, // the trusted primitive itself cannot format this
    };
    match out {
        Outcome::Err => {
            return Some(("err_without_fault".into(), expect.clone(), format!("Err after writing {:?}", text)))
        }
        Outcome::Panic(m) => {
            return Some(("panic_without_fault".into(), expect.clone(), format!("panic: {}", m)))
        }
        Outcome::Ok => {}
    }
    if text != expect {
        let kind = if sh.expect_bytes.as_deref() == Some(text) { "width_in_bytes" } else { "text" };
        return Some((kind.into(), expect.clone(), text.to_string()));
    }
    // checks that do not go through the model text
    if let Some((amount, symbol, resolves, unit_name)) = &sh.parts {
        if spec.is_plain() && !symbol.is_empty() {
            let ok = match text.strip_suffix(symbol.as_str()).and_then(|t| t.strip_suffix(' ')) {
                Some(a) => {
                    amt::parse(a).map(|p| amt::same(p, *amount)).unwrap_or(false) && resolves(symbol, unit_name)
                }
                None => false,
            };
            if !ok {
                return Some((
                    "parse_back".into(),
                    format!("<amount parsing back to {:?}> <symbol resolving to {}>", amount, unit_name),
                    text.to_string(),
                ));
            }
        }
        if let (Some(p), false) = (spec.prec, symbol.is_empty()) {
            let body = text.trim_matches(|c: char| crate::specs::FILLS.contains(&Some(c)));
            let amount_part = body.strip_suffix(symbol.as_str()).unwrap_or(body).trim_end();
            let frac = amount_part.rsplit_once('.').map(|(_, f)| f.len()).unwrap_or(0);
            if frac != p {
                // the decimal type's own Display clamps the precision to its
                // 18-digit resolution (fpdec::MAX_N_FRAC_DIGITS)
                let kind = if amt::BACKEND == "dec" && p > 18 && frac == 18 { "dec_precision_clamped_18" } else { "frac_digits" };
                return Some((kind.into(), format!("{} fractional digits", p), text.to_string()));
            }
        }
    }
    None
}

// ------------------------------------------------------------------- executor

struct OpRecord {
    line: String,
    violations: Vec<Violation>,
    judged: u64,
    fault: Option<FaultKind>,
    nested: bool,
}

fn run_op(sched: &Sched, me: usize, idx: usize, op: &Op, alloc_seams: bool, lean: bool) -> OpRecord {
    let sh = shown(&op.what, &op.spec);
    let mut sink = SimSink { sched, me, op, writes: 0, text: String::new(), fault_fired: None, nested: None };
    if alloc_seams && !sched.free {
        ALLOC_SEAM.with(|c| c.set((sched as *const Sched, me)));
    }
    let out = if op.mode == 1 {
        display_while_unwinding(&mut sink, &sh, &op.spec)
    } else {
        display_into(&mut sink, &sh, &op.spec)
    };
    ALLOC_SEAM.with(|c| c.set((std::ptr::null(), 0)));
    let mut violations = Vec::new();
    let mut judged = 0;
    let mk = |nested: bool, sh: &Shown, spec: &Spec, v: (String, String, String)| Violation {
        kind: v.0,
        thread: me,
        op: idx,
        nested,
        subject: sh.describe.clone(),
        spec: spec.literal(),
        expected: v.1,
        actual: v.2,
    };
    if sink.fault_fired.is_none() {
        judged += 1;
        if let Some(v) = judge(&sh, &op.spec, &out, &sink.text) {
            violations.push(mk(false, &sh, &op.spec, v));
        }
    } else if matches!(sink.fault_fired, Some(FaultKind::Error | FaultKind::Reject)) && out == Outcome::Ok {
        // the display reports that it wrote the text although the sink refused part of it:
        // what the sink holds is then not "amount, one space, symbol"
        if let Some(e) = &sh.expect {
            if *e != sink.text {
                judged += 1;
                violations.push(mk(
                    false,
                    &sh,
                    &op.spec,
                    ("ok_despite_sink_error".into(), format!("Err (the sink refused a write), or {:?} delivered", e), format!("Ok with {:?} delivered", sink.text)),
                ));
            }
        }
    }
    // `to_string()` called on the value itself (an inherent method would shadow the blanket
    // `ToString`): it must give the same text as a plain display
    if op.spec.is_plain() {
        if let (Some(t), Some(e)) = (&sh.to_string, &sh.expect) {
            judged += 1;
            if t != e {
                violations.push(mk(false, &sh, &op.spec, ("to_string".into(), e.clone(), t.clone())));
            }
        }
    }
    let mut nested_line = String::new();
    let nested = sink.nested.is_some();
    if let Some((nout, ntext, nsh, nspec)) = &sink.nested {
        judged += 1;
        if let Some(v) = judge(nsh, nspec, nout, ntext) {
            violations.push(mk(true, nsh, nspec, v));
        }
        nested_line = format!(" nested[{:?} {:?}]", nout, ntext);
    }
    OpRecord {
        line: if lean {
            String::new()
        } else {
            format!(
            "t{} op{}{} {} {} -> {:?} writes={} fault={:?} text={:?}{}",
            me, idx, ["", "(unwinding)", "(at thread exit)"][op.mode.min(2) as usize], sh.describe, op.spec.literal(), out, sink.writes, sink.fault_fired, sink.text, nested_line
            )
        },
        violations,
        judged,
        fault: sink.fault_fired,
        nested,
    }
}

pub fn execute(plan: &Plan) -> RunResult {
    execute_mode(plan, false)
}

pub fn execute_mode(plan: &Plan, free: bool) -> RunResult {
    let n = plan.threads.len();
    let sched = Arc::new(Sched::new(n, plan.sched.clone(), free));
    if !free {
        // the first decision picks who starts
        let mut st = sched.st.lock().unwrap();
        let first = sched.choose(&mut st, None).unwrap_or(0);
        st.current = first;
    }
    let mut handles = Vec::new();
    let late: Arc<Mutex<Vec<(usize, OpRecord)>>> = Arc::new(Mutex::new(Vec::new()));
    let alloc_seams = plan.alloc_seams;
    let (lean, repeat) = (plan.lean, plan.repeat.max(1));
    for (me, ops) in plan.threads.iter().cloned().enumerate() {
        let sched = Arc::clone(&sched);
        let late = Arc::clone(&late);
        handles.push(std::thread::spawn(move || {
            // the caller's thread-local object exists before the library has displayed anything
            EXIT_HOOK.with(|h| h.borrow_mut().0 = None);
            sched.start(me);
            let mut recs = Vec::new();
            let mut lean_sum = (0u64, 0u64);
            let mut kinds: Vec<(String, u32)> = Vec::new();
            let at_exit = if !free && !lean && ops.last().map(|o| o.mode == 2).unwrap_or(false) { ops.len() - 1 } else { usize::MAX };
            for rep in 0..repeat {
                for (i, op) in ops.iter().enumerate() {
                    if i == at_exit {
                        continue;
                    }
                    sched.seam(me, false);
                    let rec = run_op(&sched, me, rep as usize * ops.len() + i, op, alloc_seams, lean);
                    if lean {
                        // a soak run keeps counts and violations only
                        lean_sum.0 += rec.judged;
                        lean_sum.1 += 1;
                        // ... of every kind the first few
                        let mut keep = false;
                        for v in &rec.violations {
                            match kinds.iter_mut().find(|k: &&mut (String, u32)| k.0 == v.kind) {
                                Some(k) => {
                                    k.1 += 1;
                                    keep |= k.1 <= 4;
                                }
                                None => {
                                    kinds.push((v.kind.clone(), 1));
                                    keep = true;
                                }
                            }
                        }
                        if keep {
                            recs.push(rec);
                        }
                    } else {
                        recs.push(rec);
                    }
                }
            }
            if at_exit != usize::MAX {
                // the last display is made by the thread-local's destructor when the thread
                // exits; the thread keeps its place in the schedule until then
                let (sched, op) = (Arc::clone(&sched), ops[at_exit].clone());
                EXIT_HOOK.with(|h| {
                    h.borrow_mut().0 = Some(Box::new(move || {
                        sched.seam(me, false);
                        let rec = run_op(&sched, me, at_exit, &op, alloc_seams, false);
                        late.lock().unwrap().push((me, rec));
                        sched.finish(me);
                    }))
                });
            } else {
                sched.finish(me);
            }
            (recs, lean_sum)
        }));
    }
    let mut stats = RunStats::default();
    let mut violations = Vec::new();
    let mut log = Vec::new();
    for (thread_no, h) in handles.into_iter().enumerate() {
        let (mut recs, lean_sum) = h.join().expect("simulated caller thread died outside an operation");
        {
            // the display made at thread exit (the thread has been joined, so it has happened)
            let mut l = late.lock().unwrap();
            while let Some(pos) = l.iter().position(|(t, _)| *t == thread_no) {
                recs.push(l.remove(pos).1);
            }
        }
        stats.judged += lean_sum.0;
        stats.ops += lean_sum.1;
        let mut faulted_before = false;
        for r in recs {
            if !lean {
                stats.ops += 1;
                stats.judged += r.judged;
            }
            if faulted_before {
                stats.ops_after_fault_same_thread += 1;
            }
            match r.fault {
                Some(FaultKind::Error) => {
                    stats.sink_error_fired += 1;
                    faulted_before = true;
                }
                Some(FaultKind::Reject) => {
                    stats.sink_reject_fired += 1;
                    faulted_before = true;
                }
                Some(FaultKind::Panic) => {
                    stats.sink_panic_fired += 1;
                    faulted_before = true;
                }
                None => {}
            }
            if r.nested {
                stats.nested_fired += 1;
            }
            violations.extend(r.violations);
            if !lean {
                log.push(r.line);
            }
        }
    }
    let st = sched.st.lock().unwrap();
    stats.seams = st.seams;
    stats.switches = st.switches;
    stats.switches_inside_op = st.switches_inside_op;
    stats.alloc_seams = st.alloc_seams;
    stats.switches_at_alloc = st.switches_at_alloc;
    stats.fn_seams = st.fn_seams;
    stats.switches_at_fn_entry = st.switches_at_fn_entry;
    stats.stalls = st.stalls;
    stats.trace_hash = crate::prng::fnv64(&st.trace);
    stats.nontrivial = stats.switches_inside_op > 0
        || stats.sink_error_fired + stats.sink_reject_fired + stats.sink_panic_fired + stats.nested_fired > 0;
    RunResult { violations, stats, log }
}
