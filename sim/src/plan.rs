//! A plan is one simulated run written out in full: the caller threads, the
//! display operations each performs, where the simulator injects faults and
//! re-entrant displays, and the stream of scheduling decisions. A plan is a
//! pure function of its seed; executing a plan is a pure function of the plan
//! and the code under test.
use serde::{Deserialize, Serialize};

use crate::model::Spec;
use crate::prng::Prng;
use crate::specs::FILLS;
use crate::subjects::{amt, What, RATES, TABLE};

#[derive(Clone, Copy, Debug, PartialEq, Eq, Hash, Serialize, Deserialize)]
pub enum FaultKind {
    /// the sink returns `fmt::Error` from this write on
    Error,
    /// the sink panics in this write (the caller catches it and carries on)
    Panic,
    /// the sink rejects exactly this write (`fmt::Error`) and accepts later ones: a
    /// bounded all-or-nothing buffer for which this chunk was too large
    Reject,
}

#[derive(Clone, Debug, PartialEq, Eq, Hash, Serialize, Deserialize)]
pub struct Op {
    pub what: What,
    pub spec: Spec,
    /// inject a sink fault at the k-th write (0-based) of this operation
    pub fault: Option<(usize, FaultKind)>,
    /// while accepting the k-th write, the sink itself displays another value
    /// on the same thread (a sink that logs): (k, value, its specification)
    pub nested: Option<(usize, What, Spec)>,
    /// where the caller displays: 0 = in the ordinary course of the thread; 1 = in a
    /// `Drop` that runs while the thread unwinds from a (caught) panic of the caller;
    /// 2 = in the destructor of a thread-local object at thread exit (last operation
    /// of a thread only, otherwise like 0)
    #[serde(default)]
    pub mode: u8,
}

#[derive(Clone, Debug, PartialEq, Eq, Hash, Serialize, Deserialize)]
pub struct Plan {
    pub seed: u64,
    pub backend: String,
    /// one operation list per simulated caller thread
    pub threads: Vec<Vec<Op>>,
    /// scheduling decisions, consumed cyclically at every seam:
    /// 0 = the running thread continues, b > 0 = runnable[(b-1) % len] runs next
    pub sched: Vec<u8>,
    /// allocations made by the library inside a display are scheduling points too
    #[serde(default)]
    pub alloc_seams: bool,
    /// a soak run: no per-operation log lines are kept
    #[serde(default)]
    pub lean: bool,
    /// every thread executes its operation list this many times over (0 = once)
    #[serde(default)]
    pub repeat: u64,
}

/// Which fault kinds a run may use (swarm testing: varied per run).
#[derive(Clone, Copy, Debug)]
pub struct Swarm {
    pub sink_error: bool,
    pub sink_panic: bool,
    pub nested: bool,
    pub switches: bool,
}

fn gen_spec(r: &mut Prng, for_unit: bool) -> Spec {
    if r.chance(1, 4) {
        return Spec::default();
    }
    let mut s = Spec {
        fill: r.below(FILLS.len()),
        align: r.below(4),
        plus: r.chance(1, 4),
        alt: r.chance(1, 10),
        zero: r.chance(1, 8),
        width: if r.chance(2, 3) { Some(r.below(41)) } else { None },
        prec: if r.chance(1, 2) { Some(r.below(if for_unit { 8 } else { 21 })) } else { None },
    };
    s.normalise();
    s
}

fn gen_what(r: &mut Prng, types: &[usize], pool: &mut Vec<crate::subjects::Amt>) -> (What, Spec) {
    // values recur within a run: memos and caches are keyed by values
    let mut amount_of = |r: &mut Prng| {
        if !pool.is_empty() && r.chance(2, 5) {
            *r.pick(pool)
        } else {
            let a = amt::gen(r);
            pool.push(a);
            a
        }
    };
    let ty = *r.pick(types);
    let unit = r.below((TABLE[ty].n_units)());
    match r.below(11) {
        0 => (What::Unit { ty, unit }, gen_spec(r, true)),
        10 => {
            let b_ty = *r.pick(types);
            let b_unit = r.below((TABLE[b_ty].n_units)());
            let (a, b) = (amount_of(r), amount_of(r));
            (
                What::Pair { a_ty: ty, a_unit: unit, a, b_ty, b_unit, b, form: r.below(crate::subjects::PAIR_FORMS) },
                Spec::default(),
            )
        }
        1 => {
            let pair = r.below(RATES.len());
            let mut per = amount_of(r);
            if RATES[pair].per_is_unitless && amt::is_one(amt::to_amount(per)) {
                per = amt::simple();
            }
            if r.chance(1, 3) {
                // a multiple of one, in any of its representations (1, 1.0, 1.00 …)
                per = match per {
                    crate::subjects::Amt::F(_) => crate::subjects::Amt::F(1f64.to_bits()),
                    crate::subjects::Amt::D(..) | crate::subjects::Amt::X(..) => {
                        let f = r.below(4) as u8;
                        crate::subjects::Amt::D(10i64.pow(f as u32), f)
                    }
                };
                if RATES[pair].per_is_unitless {
                    per = amt::simple();
                }
            }
            (
                What::Rate { pair, term_unit: r.below(16), term: amount_of(r), per_unit: r.below(16), per },
                Spec::default(),
            )
        }
        _ => {
            let mut spec = gen_spec(r, false);
            let amount = amount_of(r);
            // "+" on negative zero is outside what the property speaks about
            if amt::is_neg_zero(amt::to_amount(amount)) {
                spec.plus = false;
            }
            (What::Qty { ty, unit, amount }, spec)
        }
    }
}

pub fn generate(seed: u64) -> Plan {
    generate_with(seed, false)
}

/// `lite`: small amounts, widths and precisions, two operations per thread and
/// at least two threads — for executions under an interpreter (Miri), where
/// formatting a 300-digit number costs seconds and the point is the interleaving.
pub fn generate_with(seed: u64, lite: bool) -> Plan {
    let mut plan = generate_full(seed, lite);
    if lite {
        for t in plan.threads.iter_mut() {
            t.truncate(3);
            for op in t.iter_mut() {
                lite_op(&mut op.what, &mut op.spec, seed);
                if let Some((_, w, s)) = op.nested.as_mut() {
                    lite_op(w, s, seed);
                }
            }
        }
    }
    plan
}

fn lite_op(what: &mut What, spec: &mut Spec, seed: u64) {
    use crate::subjects::Amt;
    let small = |a: &mut Amt, salt: u64| {
        let mut r = Prng::new(seed ^ salt);
        let v = (r.below(4001) as i64 - 2000, r.below(3) as u8);
        *a = match *a {
            Amt::F(_) => Amt::F((v.0 as f64 / [1.0, 10.0, 100.0][v.1 as usize]).to_bits()),
            Amt::D(..) | Amt::X(..) => Amt::D(v.0, v.1),
        };
    };
    match what {
        What::Qty { amount, unit, .. } => small(amount, *unit as u64 + 1),
        What::Rate { term, per, .. } => {
            small(term, 11);
            if !amt::is_one(amt::to_amount(*per)) {
                small(per, 12);
                if amt::to_amount(*per) == amt::to_amount(Amt::D(0, 0)) || amt::is_one(amt::to_amount(*per)) {
                    *per = amt::simple();
                }
            }
        }
        What::Unit { .. } => {}
        What::Pair { a, b, .. } => {
            small(a, 21);
            small(b, 22);
        }
    }
    spec.width = spec.width.map(|w| w % 13);
    spec.prec = spec.prec.map(|p| p % 5);
    // contention wants like operations: most displays take the precision path
    if spec.prec.is_none() && matches!(what, What::Qty { .. }) && (seed ^ spec.width.unwrap_or(7) as u64) % 3 != 0 {
        spec.prec = Some((seed % 4) as usize);
    }
}

fn generate_full(seed: u64, lite: bool) -> Plan {
    let mut r = Prng::new(seed);
    let swarm = Swarm {
        sink_error: r.chance(1, 2),
        sink_panic: r.chance(1, 3),
        nested: r.chance(1, 3),
        switches: r.chance(3, 4),
    };
    // a random subset of the types per run
    let k = 1 + r.below(4);
    let types: Vec<usize> = (0..k).map(|_| r.below(TABLE.len())).collect();
    // 1-4 caller threads, now and then a crowd of 5-8
    let n_threads = if lite {
        3
    } else if r.chance(1, 25) {
        5 + r.below(4)
    } else {
        1 + r.below(4)
    };
    // now and then a long history on few threads: state that only goes wrong
    // after hundreds of displays on one thread needs it
    let long = !lite && r.chance(1, 250);
    let n_threads = if long { 1 + r.below(2) } else { n_threads };
    // now and then a throng: 48-111 caller threads with one or two displays each and a
    // schedule that picks among all of them at every seam, so that dozens of displays
    // are in flight at once (a bounded pool of buffers or slots runs dry only then: S52)
    // (not in the instrumented configuration: with a seam at every function entry a hundred parked
    // threads make the harness itself so slow that its no-progress limit trips - a false alarm
    // of the harness seen once on the unchanged tree, C17 f64-fnseam, and removed this way)
    let throng = !lite && !long && r.chance(1, 1500) && !cfg!(feature = "fn-seam");
    let n_threads = if throng { 48 + r.below(64) } else { n_threads };
    let mut threads = Vec::new();
    let mut pool = Vec::new();
    for _ in 0..n_threads {
        let n_ops = if long { 260 + r.below(300) } else if throng { 1 + r.below(2) } else { 1 + r.below(5) };
        let mut ops = Vec::new();
        for _ in 0..n_ops {
            let (what, spec) = gen_what(&mut r, &types, &mut pool);
            let fault = if swarm.sink_error && r.chance(1, 4) {
                Some((r.below(5), if r.chance(1, 3) { FaultKind::Reject } else { FaultKind::Error }))
            } else if swarm.sink_panic && r.chance(1, 5) {
                Some((r.below(5), FaultKind::Panic))
            } else {
                None
            };
            let nested = if swarm.nested && r.chance(1, 3) {
                let (w, s) = gen_what(&mut r, &types, &mut pool);
                Some((r.below(4), w, s))
            } else {
                None
            };
            let mode = if r.chance(1, 40) { 1 } else { 0 };
            ops.push(Op { what, spec, fault, nested, mode });
        }
        // now and then the thread's last display is made by a thread-local's destructor at thread exit
        if !lite && r.chance(1, 12) {
            if let Some(last) = ops.last_mut() {
                last.mode = 2;
            }
        }
        threads.push(ops);
    }
    let n_sched = 8 + r.below(56);
    let sched = (0..n_sched)
        .map(|_| {
            if throng {
                1 + r.below(255) as u8
            } else if !swarm.switches || r.chance(1, 2) {
                0
            } else {
                1 + r.below(8) as u8
            }
        })
        .collect();
    let alloc_seams = n_threads > 1 && r.chance(1, 2);
    Plan { seed, backend: amt::BACKEND.to_string(), threads, sched, alloc_seams, lean: false, repeat: 0 }
}

// ------------------------------------------------------------- systematic plans
//
// Besides the seeded search, a bounded space is enumerated completely: for every
// unit of every type, for each of a few format specifications and every sink
// write index 0..SYS_K, one plan per event kind placed exactly at that write —
// sink error, sink panic, hand-over to another caller thread, re-entrant display
// — each followed by probe displays (same unit, another type, the bare unit, a
// rate) on the same thread.

pub const SYS_K: usize = 20;
pub const SYS_VARIANTS: usize = 5;
/// what the operation that meets the event displays: a value, the bare unit, a rate / a positive value
pub const SYS_FIRST: usize = 3;

pub fn sys_specs() -> [Spec; 5] {
    let d = Spec::default();
    [
        d,
        Spec { prec: Some(2), ..d },
        Spec { align: 3, width: Some(14), prec: Some(1), ..d },
        Spec { plus: true, zero: true, width: Some(12), prec: Some(3), ..d },
        Spec { fill: 1, align: 2, width: Some(16), ..d },
    ]
}

pub fn sys_total() -> u64 {
    let units: usize = TABLE.iter().map(|e| (e.n_units)()).sum();
    (units * sys_specs().len() * SYS_K * SYS_VARIANTS * SYS_FIRST) as u64
}

pub fn systematic(index: u64) -> Plan {
    let mut i = index as usize;
    let variant = i % SYS_VARIANTS;
    i /= SYS_VARIANTS;
    let first_kind = i % SYS_FIRST;
    i /= SYS_FIRST;
    let k = i % SYS_K;
    i /= SYS_K;
    let specs = sys_specs();
    let spec_idx = i % specs.len();
    let spec = specs[spec_idx];
    i /= specs.len();
    // i is now a flat (type, unit) index
    let (mut ty, mut unit) = (0, 0);
    for (t, e) in TABLE.iter().enumerate() {
        let n = (e.n_units)();
        if i < n {
            ty = t;
            unit = i;
            break;
        }
        i -= n;
    }
    let other = (ty + 1) % TABLE.len();
    let plain = Spec::default();
    let q = |ty, unit, milli| What::Qty { ty, unit, amount: amt::from_milli(milli) };
    let op = |what, spec| Op { what, spec, fault: None, nested: None, mode: 0 };
    let probes = vec![
        op(q(ty, unit, 3250), plain),
        op(q(other, 0, -7500), Spec { prec: Some(1), ..plain }),
        op(What::Unit { ty, unit }, plain),
        op(
            What::Rate { pair: 0, term_unit: 3, term: amt::from_milli(-2500), per_unit: 1, per: amt::from_milli(4000) },
            plain,
        ),
        op(q(ty, unit, -12500), spec),
    ];
    let mut first = match (first_kind, spec_idx) {
        (0, _) => op(q(ty, unit, -12500), spec),
        (1, _) => op(What::Unit { ty, unit }, spec),
        (_, 0) => op(
            What::Rate { pair: ty % RATES.len(), term_unit: unit, term: amt::from_milli(-12500), per_unit: unit, per: amt::from_milli(4000) },
            plain,
        ),
        _ => op(q(ty, unit, 12500), spec),
    };
    let mut threads;
    let mut sched = vec![0u8; 1];
    match variant {
        0 | 1 | 4 => {
            first.fault = Some((k, [FaultKind::Error, FaultKind::Panic, FaultKind::Error, FaultKind::Error, FaultKind::Reject][variant]));
            threads = vec![vec![first]];
            threads[0].extend(probes);
        }
        2 => {
            // T0 is suspended exactly at its k-th write; T1 runs all its displays; T0 resumes
            threads = vec![vec![first, op(q(ty, unit, 3250), plain)], probes];
            sched = vec![1];
            sched.extend(std::iter::repeat(0).take(1 + k));
            sched.push(2);
            sched.extend(std::iter::repeat(0).take(400));
        }
        _ => {
            first.nested = Some((k, q(ty, unit, -3250), plain));
            threads = vec![vec![first]];
            threads[0].extend(probes);
        }
    }
    Plan { seed: index, backend: amt::BACKEND.to_string(), threads, sched, alloc_seams: false, lean: false, repeat: 0 }
}

// ------------------------------------------------------------------ soak plans
//
// A long history in one process and on one thread: plan `i` displays values, units
// and now and then a rate of type `i` `ops` times over (a cycle of SOAK_CYCLE
// operations repeated). State that only goes wrong after tens of thousands of
// displays (a counter that wraps, a buffer that has grown) needs it; the seeded
// search's long runs stop at a few hundred.

pub const SOAK_CYCLE: usize = 2048;

pub fn soak_total() -> u64 {
    TABLE.len() as u64
}

pub fn soak(index: u64, ops: u64) -> Plan {
    let ty = index as usize % TABLE.len();
    let n = (TABLE[ty].n_units)();
    let d = Spec::default();
    let mut v = Vec::with_capacity(SOAK_CYCLE);
    for k in 0..SOAK_CYCLE {
        let unit = k % n;
        let amount = amt::from_milli((k as i64 * 37) % 9001 - 4500);
        let (what, spec) = match k % 64 {
            63 => (What::Unit { ty, unit }, d),
            31 => (
                What::Rate { pair: ty % RATES.len(), term_unit: unit, term: amount, per_unit: k % 7, per: amt::from_milli(4000) },
                d,
            ),
            x if x % 8 == 5 => (What::Qty { ty, unit, amount }, Spec { prec: Some(k % 4), ..d }),
            x if x % 8 == 6 => (What::Qty { ty, unit, amount }, Spec { align: 3, width: Some(8 + k % 24), ..d }),
            _ => (What::Qty { ty, unit, amount }, d),
        };
        v.push(Op { what, spec, fault: None, nested: None, mode: if k % 512 == 77 { 1 } else { 0 } });
    }
    let repeat = (ops + SOAK_CYCLE as u64 - 1) / SOAK_CYCLE as u64;
    Plan { seed: index, backend: amt::BACKEND.to_string(), threads: vec![v], sched: vec![0], alloc_seams: false, lean: true, repeat }
}
