#!/usr/bin/env python3
"""Merges the per-back-end parts written by `qsim batch` into /verif/evidence/<id>.json."""
import json, sys, time
prop, tier, seed, t0 = sys.argv[1], sys.argv[2], int(sys.argv[3]), float(sys.argv[4])
allparts = [json.load(open(p)) for p in sys.argv[5:]]
parts = [p for p in allparts if p.get("source", "rnd") != "sys"]
sysparts = [p for p in allparts if p.get("source") == "sys"]
soak = [p for p in parts if str(p.get("source", "")).startswith("soak")]
tot = lambda k: sum(p[k] for p in parts)
fk = lambda k: sum(p["faults_fired"][k] for p in parts)
wall = time.time() - t0
samples = []
for p in parts:
    for s in p["samples"][:1]:
        samples.append({"backend": p["backend"], **s})
ev = {
 "property_id": prop,
 "tier": tier,
 "seed": seed,
 "level": "exploration",
 "coverage": {
  "evaluations": tot("runs") + sum(p["runs"] for p in sysparts),
  "distinct_nontrivial": tot("distinct_nontrivial_runs"),
  "rule": "one evaluation = one simulated run: 1-4 real caller threads (only one runs at a time; the simulator decides at every sink write, at every operation boundary and - in about half of the multi-threaded runs - at every allocation the library makes inside a display (and, in the f64-fnseam configuration, at every function entry and atomic operation of the library's display path), who proceeds), each performing 1-5 Display operations (quantity value / unit / rate x literal format specification x amount class) into a fault-injecting fmt::Write sink; most runs are executed by long-lived worker processes, per type one 'soak' run displays values of that type 200 000 times over (3 M in the thorough tier) on one thread of one process, one eighth as many again by short-lived ('cold') processes of 6 runs each; everything is derived from the run seed = f(VERIF_SEED, run index). A run is non-trivial if the simulation dimension was exercised in it: a thread switch in the middle of a display (at a sink write or at a library allocation), a fired sink error (sticky, or exactly one rejected write), a fired (and caught) sink panic, or a re-entrant display issued by the sink; runs are distinct by (operation lists, schedule trace) hash. Oracle: every display that completed Ok on a sink that never failed must have delivered exactly the reference-model text (sim/src/model.rs), plus parse-back and fractional-digit checks that bypass the model; a display that returns Ok although the sink refused one of its writes must nevertheless have delivered the model text.",
  "samples": samples,
  "simulated_runs": tot("runs") + sum(p["runs"] for p in sysparts),
  "seeded_search_runs": tot("runs"),
  "systematic_placement": {
    "exhaustive_over": "every unit of every type x what meets the event {a negative value, the bare unit, a rate (plain specification) / a positive value} x 5 format specifications x sink write index 0..19 x event {sink error, sink panic caught, hand-over to a second caller thread that runs 5 displays, re-entrant display, exactly one rejected write}, each followed by 5 probe displays (same unit, another type, the bare unit, a rate, the first value again)",
    "exhaustive": True,
    "per_backend": [{"backend": p["backend"], "plans": p["runs"], "display_operations_judged": p["ops_judged"], "faults_fired": p["faults_fired"], "thread_switches_inside_a_display": p["thread_switches_inside_a_display"], "violations": p["violations"], "wall_s": p["wall_s"]} for p in sysparts],
  },
  "soak_runs": [{"backend": p["backend"], "single_thread_histories": p["runs"], "displays_per_history": int(str(p["source"]).split(":")[1]), "display_operations": p["ops"], "judged": p["ops_judged"], "violations": p["violations"], "wall_s": p["wall_s"]} for p in soak],
  "runs_per_hour": int(tot("runs") / max(sum(p["wall_s"] for p in parts), 1e-9) * 3600),
  "display_operations": tot("ops"),
  "display_operations_judged_against_model": tot("ops_judged"),
  "distinct_subject_x_spec_cases": tot("distinct_subject_spec_cases"),
  "seams_sink_writes_and_op_boundaries": tot("seams"),
  "thread_switches": tot("thread_switches"),
  "thread_switches_inside_a_display": tot("thread_switches_inside_a_display"),
  "allocator_seams": tot("allocator_seams"),
  "thread_switches_at_an_allocation_inside_library_code": tot("thread_switches_at_an_allocation_inside_library_code"),
  "function_entry_seams": tot("function_entry_seams"),
  "thread_switches_at_a_function_entry_inside_library_code": tot("thread_switches_at_a_function_entry_inside_library_code"),
  "fault_kinds_fired": {
    "sink_returns_fmt_error_at_kth_write": fk("sink_error"),
    "sink_rejects_only_the_kth_write": sum(p["faults_fired"].get("sink_rejects_one_write", 0) for p in parts),
    "sink_panics_at_kth_write_caught_by_caller": fk("sink_panic_caught"),
    "reentrant_display_from_inside_sink_write": fk("reentrant_display_from_sink"),
  },
  "runs_with_a_judged_display_after_a_fault_on_the_same_thread": tot("runs_with_display_after_fault_on_same_thread"),
  "stalls_baton_takeovers": tot("stalls"),
  "simulated_time": "none: the code under test reads no clock and has no timer; there is no time to simulate",
  "determinism_recheck": [{"backend": p["backend"], **(p["determinism"] or {})} for p in parts],
  "known_findings_seen": [{"backend": p["backend"], **k} for p in parts for k in p["known_findings_seen"]],
  "per_backend": [{k: p[k] for k in ("backend", "runs", "ops", "ops_judged", "wall_s", "runs_per_hour", "units_available", "units_shown", "types_available")} for p in parts],
  "components": {
    "real_code": ["quantities (from /repo working tree): Quantity::fmt, Unit::fmt, Rate Display, generated Display impls, unit registries", "qty-macros (expands the catalogue and the synthetic types)", "astronomical-quantities (f64 only)", "core::fmt / alloc (std)", "fpdec Display (decimal back-end)"],
    "simulated": ["fmt::Write sink (seam: scheduling point, fault point, re-entrancy point)", "global allocator (seam: scheduling point at every allocation the library makes inside a display; never a fault point)", "function entries and atomic operations of the library display path (f64-fnseam configuration only: nightly -Zsanitizer=thread -Zexternal-clangrt, i.e. TSan instrumentation whose callbacks are provided by sim/fnseam-rt instead of the TSan runtime; counted under function_entry_seams)", "caller threads' scheduling (baton passing; the OS never chooses)", "the callers themselves (seeded workload)"],
    "stubbed": [],
  },
 },
 "assumptions": [
  "trusted primitives: the amount type's own Display (std f64 / fpdec Decimal) for |amount| with optional precision, and std's string formatting for unit symbols",
  "native tiers switch threads only at sink writes, at allocations made by the library inside a display, at function entries and atomic operations (f64-fnseam configuration) and at operation boundaries; pre-emption elsewhere is explored only by the Miri part of the thorough tier (small and probabilistic)",
  "sampling: a clean batch is evidence, not proof",
 ],
 "wall_s": round(wall, 2),
 "violations": tot("violations") + sum(p["violations"] for p in sysparts),
}
import glob, os, re
miri = []
for f in sorted(glob.glob(os.path.join(os.path.dirname(sys.argv[5]), "C15-miri-*.log"))):
    txt = open(f, errors="replace").read()
    done = re.findall(r"^FREE runs=(\d+) ops=(\d+) violations=(\d+)", txt, re.M)
    miri.append({"backend": re.search(r"miri-(\w+)\.log", f).group(1), "interpreter_seeds_completed": len(done),
                 "runs": sum(int(d[0]) for d in done), "display_operations": sum(int(d[1]) for d in done),
                 "violations": sum(int(d[2]) for d in done)})
if tier == "thorough" and miri:
    ev["coverage"]["miri_free_running_preemptive"] = miri
    ev["violations"] += sum(m["violations"] for m in miri)
json.dump(ev, sys.stdout, indent=1, ensure_ascii=False)
print()
