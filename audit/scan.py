#!/usr/bin/env python3
"""Token scan used by seam_audit.sh (informational; not a check for any property).

usage: scan.py <label> <file-or-dir>...

Counts, in Rust source or `-Zunpretty=expanded` output, every syntactic form
through which a schedule, clock, fault or shared mutable state could enter the
library. Comments, doc attributes and string/char literals are removed first so
that prose ("static", "thread") cannot produce hits. Prints one line per
pattern with its count, the offending lines for non-zero counts, and finally
`SCAN <label> hits=<n>`.
"""
import os, re, sys

PATTERNS = [
    ("static item",            r"\bstatic\s+(?:mut\s+)?[A-Za-z_][A-Za-z0-9_]*\s*:"),
    ("thread_local",           r"\bthread_local\b"),
    ("interior mutability",    r"\b(?:Cell|RefCell|UnsafeCell|OnceCell|LazyCell)\b"),
    ("sync primitive",         r"\b(?:Atomic[A-Z][A-Za-z0-9]*|Mutex|RwLock|OnceLock|LazyLock|Condvar|Barrier|mpsc|Once)\b"),
    ("unsafe code",            r"\bunsafe\s*(?:fn|impl|trait|\{)"),
    ("std::io / Read / Write", r"\bstd::io\b|\bio::(?:Read|Write|BufRead|Seek)\b"),
    ("fs / net / process",     r"\bstd::(?:fs|net|process|os)\b"),
    ("time",                   r"\bstd::time\b|\bInstant\b|\bSystemTime\b|\bsleep\s*\("),
    ("environment",            r"\bstd::env\b|\benv!\s*\(|\boption_env!\s*\("),
    ("threads",                r"\bstd::thread\b|\bthread::spawn\b|\bspawn\s*\("),
    ("hash-ordered container", r"\b(?:HashMap|HashSet|RandomState|DefaultHasher)\b"),
    ("async",                  r"\basync\s+(?:fn|move|\{)|\.await\b|\bFuture\b|\bPoll\b"),
    ("randomness",             r"\brand::|\bgetrandom\b|\bthread_rng\b"),
    ("heap / shared ownership",r"\b(?:Box|Rc|Arc|Weak)\s*<"),
    ("destructor",             r"\bimpl(?:\s*<[^>]*>)?\s+Drop\s+for\b"),
    ("dynamic dispatch",       r"\bdyn\s+[A-Za-z_:]"),
    ("ffi",                    r"\bextern\s+\"|\blibc::"),
    # fpdec's thread-local default rounding mode (DESIGN §3.2): the library touching it
    ("ambient rounding mode",  r"\bRoundingMode\b|\bset_default\s*\("),
    ("panic hooks / unwinding",r"\bcatch_unwind\b|\bset_hook\b|\bresume_unwind\b"),
]

# forms that are known-harmless and occur on the pinned tree
ALLOW = [
    r"#!\[deny\(unsafe_code\)\]",
    r"clippy::undocumented_unsafe_blocks",
    # emitted by nightly's #[derive(Clone)] on Copy types: a marker trait, no code
    r"unsafe impl(?:<[^>]*>)? ::core::clone::TrivialClone for [^{]*\{ \}",
]


def strip(text: str) -> str:
    out = []
    i, n = 0, len(text)
    while i < n:
        c = text[i]
        nxt = text[i + 1] if i + 1 < n else ""
        if c == "/" and nxt == "/":                      # line comment
            j = text.find("\n", i)
            i = n if j < 0 else j
        elif c == "/" and nxt == "*":                    # block comment (nestable)
            depth, i = 1, i + 2
            while i < n and depth:
                if text.startswith("/*", i): depth += 1; i += 2
                elif text.startswith("*/", i): depth -= 1; i += 2
                else:
                    if text[i] == "\n": out.append("\n")
                    i += 1
        elif c == "r" and re.match(r'r#*"', text[i:i + 8]) and (i == 0 or not (text[i-1].isalnum() or text[i-1] == "_")):
            m = re.match(r'r(#*)"', text[i:])
            end = text.find('"' + m.group(1), i + len(m.group(0)))
            seg = text[i:(n if end < 0 else end + 1 + len(m.group(1)))]
            out.append('""' + "\n" * seg.count("\n")); i += len(seg)
        elif c == '"':                                   # string literal
            j = i + 1
            while j < n and text[j] != '"':
                j += 2 if text[j] == "\\" else 1
            seg = text[i:j + 1]
            out.append('""' + "\n" * seg.count("\n")); i = j + 1
        elif c == "'" and re.match(r"'(?:\\.[^']*|[^'\\])'", text[i:i + 12]):  # char literal (not lifetime)
            m = re.match(r"'(?:\\.[^']*|[^'\\])'", text[i:i + 12])
            out.append("' '"); i += len(m.group(0))
        else:
            out.append(c); i += 1
    s = "".join(out)
    # doc attributes are now `#[doc = ""]`; drop them entirely
    s = re.sub(r"#!?\[doc\s*=\s*\"\"\s*\]", "", s)
    return s


def files(paths):
    for p in paths:
        if os.path.isdir(p):
            for root, _, names in os.walk(p):
                for nm in sorted(names):
                    if nm.endswith(".rs"):
                        yield os.path.join(root, nm)
        else:
            yield p


def main():
    label, paths = sys.argv[1], sys.argv[2:]
    total, nfiles, nlines = 0, 0, 0
    counts = {name: [] for name, _ in PATTERNS}
    for f in files(paths):
        nfiles += 1
        raw = open(f, encoding="utf-8").read()
        for a in ALLOW:
            raw = re.sub(a, "", raw)
        txt = strip(raw)
        for ln, line in enumerate(txt.split("\n"), 1):
            nlines += 1
            for name, pat in PATTERNS:
                if re.search(pat, line):
                    counts[name].append(f"{f}:{ln}: {line.strip()[:140]}")
    for name, _ in PATTERNS:
        hits = counts[name]
        print(f"  {label:<14} {name:<26} {len(hits)}")
        for h in hits[:10]:
            print(f"      {h}")
        total += len(hits)
    print(f"SCAN {label} files={nfiles} lines={nlines} hits={total}")
    return 0


if __name__ == "__main__":
    sys.exit(main())
