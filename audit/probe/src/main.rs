//! Seam probe for /verif/audit/seam_audit.sh — informational, not a check.
//!
//! `seam-probe types`
//!     Compile-time + run-time statement that every public value type of the
//!     library is plain data: Copy + Send + Sync + Unpin + UnwindSafe +
//!     RefUnwindSafe + 'static and !needs_drop (RefUnwindSafe == no UnsafeCell
//!     reachable == no interior mutability).
//!
//! `seam-probe sched <threads> <rounds> <base> [<operands per type>]`
//!     Schedule-insensitivity probe. A fixed workload over the public API is
//!     evaluated once sequentially (the reference log) and then by <threads>
//!     OS threads at the same time, all reading the *same* shared operand
//!     table; every thread's log must be byte-identical to the reference.
//!     Natively the OS decides the interleaving (many rounds); under
//!     `cargo miri run -Zmiri-many-seeds` Miri's seeded scheduler does, one
//!     seed = one repeatable execution, and Miri would also report any data
//!     race. On a library with no shared mutable state every interleaving is
//!     observationally the same, which is exactly what this probe prints.
use std::panic::{RefUnwindSafe, UnwindSafe};
use std::sync::Arc;

use quantities::prelude::*;
use quantities::{
    acceleration::*, area::*, datathroughput::*, datavolume::*, duration::*,
    energy::*, force::*, frequency::*, length::*, mass::*, power::*, speed::*,
    temperature::*, volume::*,
};
use quantities::{ConversionTable, Converter, One, Rate, SIPrefix};

fn plain<T>(n: &mut usize)
where
    T: Copy + Send + Sync + Unpin + UnwindSafe + RefUnwindSafe + 'static,
{
    assert!(!std::mem::needs_drop::<T>());
    *n += 1;
}

fn almost_plain<T>(n: &mut usize)
where
    T: Send + Sync + Unpin + UnwindSafe + RefUnwindSafe + 'static,
{
    assert!(!std::mem::needs_drop::<T>());
    *n += 1;
}

macro_rules! plain_all {
    ($n:ident; $($q:ty, $u:ty);* $(;)?) => { $( plain::<$q>(&mut $n); plain::<$u>(&mut $n); )* };
}

fn types() {
    let mut n = 0usize;
    plain_all!(n;
        Acceleration, AccelerationUnit; Area, AreaUnit;
        DataThroughput, DataThroughputUnit; DataVolume, DataVolumeUnit;
        Duration, DurationUnit; Energy, EnergyUnit; Force, ForceUnit;
        Frequency, FrequencyUnit; Length, LengthUnit; Mass, MassUnit;
        Power, PowerUnit; Speed, SpeedUnit; Temperature, TemperatureUnit;
        Volume, VolumeUnit;
    );
    plain::<AmountT>(&mut n);
    plain::<One>(&mut n);
    plain::<SIPrefix>(&mut n);
    plain::<Rate<Length, Duration>>(&mut n);
    plain::<Rate<Temperature, AmountT>>(&mut n);
    almost_plain::<ConversionTable<Temperature, 6>>(&mut n);
    #[cfg(feature = "astro")]
    {
        use astronomical_quantities as aq;
        plain_all!(n;
            aq::Mass, aq::MassUnit; aq::Length, aq::LengthUnit;
            aq::Duration, aq::DurationUnit; aq::Speed, aq::SpeedUnit;
        );
    }
    println!(
        "TYPES plain_data={} size_of_length={} size_of_unit={}",
        n,
        std::mem::size_of::<Length>(),
        std::mem::size_of::<LengthUnit>()
    );
}

// ---------------------------------------------------------------- workload

#[cfg(not(feature = "fpdec"))]
fn amnt(i: u64) -> AmountT {
    // a few magnitude classes, both signs, deterministic
    let m = [1.0, 0.001, 1234.5, 29.35, 1e-9, 7e6, 0.3048, 60.0][(i % 8) as usize];
    let s = if (i / 8) % 2 == 0 { 1.0 } else { -1.0 };
    s * m * (1.0 + (i % 13) as f64 / 16.0)
}

#[cfg(feature = "fpdec")]
fn amnt(i: u64) -> AmountT {
    use quantities::Decimal;
    let m = [
        Decimal::new_raw(1, 0),
        Decimal::new_raw(1, 3),
        Decimal::new_raw(12345, 1),
        Decimal::new_raw(2935, 2),
        Decimal::new_raw(1, 9),
        Decimal::new_raw(7_000_000, 0),
        Decimal::new_raw(3048, 4),
        Decimal::new_raw(60, 0),
    ][(i % 8) as usize];
    let s = if (i / 8) % 2 == 0 { Decimal::ONE } else { -Decimal::ONE };
    s * m * (Decimal::ONE + Decimal::new_raw((i % 13) as i128 * 625, 4))
}

struct Shared {
    lens: Vec<Length>,
    durs: Vec<Duration>,
    masses: Vec<Mass>,
    temps: Vec<Temperature>,
}

fn shared(base: u64, take: usize) -> Shared {
    let mut s = Shared { lens: vec![], durs: vec![], masses: vec![], temps: vec![] };
    let mut i = base;
    for u in LengthUnit::iter().take(take) {
        s.lens.push(Length::new(amnt(i), u));
        i += 1;
    }
    for u in DurationUnit::iter().take(take) {
        s.durs.push(Duration::new(amnt(i), u));
        i += 1;
    }
    for u in MassUnit::iter().take(take) {
        s.masses.push(Mass::new(amnt(i), u));
        i += 1;
    }
    for u in TemperatureUnit::iter().take(take) {
        s.temps.push(Temperature::new(amnt(i), u));
        i += 1;
    }
    s
}

fn workload(sh: &Shared) -> Vec<String> {
    let mut log = Vec::new();
    // A panic (decimal overflow on out-of-range magnitudes, the documented
    // unit-mismatch panic) is itself a pure function of the operands: it is
    // logged like any other result and must recur identically on every thread.
    macro_rules! rec { ($($a:tt)*) => {
        log.push(
            std::panic::catch_unwind(std::panic::AssertUnwindSafe(|| format!($($a)*)))
                .unwrap_or_else(|_| String::from("PANIC")),
        )
    }; }
    // C01/C02/C03: conversion, comparison, +,-,/ over all ordered unit pairs
    for a in &sh.lens {
        for b in &sh.lens {
            let c = a.convert(b.unit());
            rec!("cv {:?} {:?} eq={} lt={} cmp={:?}", c, a.equiv_amount(b.unit()), a == b, a < b, PartialOrd::partial_cmp(a, b));
            rec!("as {:?} {:?} {:?}", *a + *b, *a - *b, *a / *b);
        }
    }
    // C04/C05: derived products / quotients incl. borrowed forms and _fit
    for l in &sh.lens {
        for t in &sh.durs {
            rec!("dq {:?} {:?}", *l / *t, l / t);
            rec!("dq2 {:?} {:?}", (*l / *t) * *t, (*l / *t) / *t);
        }
        for l2 in &sh.lens {
            rec!("dp {:?}", *l * *l2);
            rec!("dp2 {:?}", (*l * *l2) * *l);
        }
    }
    for m in &sh.masses {
        let acc = amnt(3) * METER_PER_SECOND_SQUARED;
        rec!("fe {:?}", *m * acc);
        rec!("fe2 {:?}", (*m * acc) * sh.lens[0]);
        rec!("fe3 {:?}", ((*m * acc) * sh.lens[0]) / sh.durs[1]);
    }
    let dv = amnt(5) * MEGABYTE;
    rec!("dt {:?}", dv / sh.durs[2]);
    rec!("fr {:?}", amnt(1) / sh.durs[0]);
    // C09: registry + lookups
    for u in LengthUnit::iter() {
        rec!(
            "rg {:?} {} {} {:?} {:?} {:?} {:?}",
            u, u.name(), u.symbol(), u.si_prefix(), u.scale(),
            LengthUnit::from_symbol(&u.symbol()), LengthUnit::from_scale(u.scale())
        );
    }
    // C10/C14: no-ref-unit comparisons and the conversion table
    for a in &sh.temps {
        for b in &sh.temps {
            rec!("te eq={} cmp={:?}", a == b, PartialOrd::partial_cmp(a, b));
            rec!("tc {:?}", TEMPERATURE_CONVERTER.convert(a, b.unit()));
        }
    }
    // C13: rates
    let r = Rate::<Length, Duration>::from_qty_vals(sh.lens[3], sh.durs[1]);
    rec!("rt {} {:?} {:?} {}", r, r * sh.durs[2], sh.lens[5] / r, r.reciprocal());
    // C15: formatting
    for a in sh.lens.iter().take(2) {
        rec!("fm [{}] [{:>20.3}] [{:<+18.1}] [{:*^24}] [{}]", a, a, a, a, a.unit());
    }
    // C16: SI prefixes
    for p in SIPrefix::iter() {
        rec!("si {:?} {} {} {} {:?} {:?}", p, p.name(), p.abbr(), p.exp(), SIPrefix::from_exp(p.exp()), SIPrefix::from_abbr(p.abbr()));
    }
    log
}

fn fnv(log: &[String]) -> u64 {
    let mut h: u64 = 0xcbf29ce484222325;
    for s in log {
        for b in s.bytes().chain([b'\n']) {
            h ^= b as u64;
            h = h.wrapping_mul(0x100000001b3);
        }
    }
    h
}

fn sched(threads: usize, rounds: usize, base: u64, take: usize) {
    std::panic::set_hook(Box::new(|_| {})); // panics are logged as results
    let mut distinct = std::collections::BTreeSet::new();
    let mut lines = 0usize;
    for round in 0..rounds {
        let sh = Arc::new(shared(base + round as u64, take));
        let reference = workload(&sh);
        lines = reference.len();
        let href = fnv(&reference);
        distinct.insert(href);
        let hs: Vec<_> = (0..threads)
            .map(|_| {
                let sh = Arc::clone(&sh);
                std::thread::spawn(move || workload(&sh))
            })
            .collect();
        for (k, h) in hs.into_iter().enumerate() {
            let got = h.join().expect("worker panicked");
            if got != reference {
                let at = got.iter().zip(&reference).position(|(a, b)| a != b);
                let _ = std::panic::take_hook();
                println!(
                    "SCHED DIVERGED round={} thread={} first_diff_line={:?}",
                    round, k, at
                );
                std::process::exit(3);
            }
        }
    }
    println!(
        "SCHED identical threads={} rounds={} log_lines={} distinct_reference_logs={}",
        threads, rounds, lines, distinct.len()
    );
}

fn main() {
    let a: Vec<String> = std::env::args().collect();
    match a.get(1).map(String::as_str) {
        Some("types") => types(),
        Some("sched") => sched(
            a.get(2).and_then(|s| s.parse().ok()).unwrap_or(8),
            a.get(3).and_then(|s| s.parse().ok()).unwrap_or(4),
            a.get(4).and_then(|s| s.parse().ok()).unwrap_or(0),
            a.get(5).and_then(|s| s.parse().ok()).unwrap_or(usize::MAX).max(4),
        ),
        _ => {
            eprintln!("usage: seam-probe types | sched <threads> <rounds> <base> [<operands per type, >=4>]");
            std::process::exit(2)
        }
    }
}
