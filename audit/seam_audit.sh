#!/usr/bin/env bash
# seam_audit.sh — informational; NOT a check for any property, never prints a
# VIOLATION line, registered nowhere in MANIFEST.json.
#
# Purpose: DESIGN.md answers "not applicable" for 17 of the 19 properties because,
# outside the fmt::Write sink behind Display (C15, ./check C15) and the serde
# Serializer / Deserializer behind the derived impls (C17, ./check C17), the library has no
# schedule, clock, I/O, fault or shared-mutable-state surface for a deterministic
# simulator to own. That verdict is conditional on facts about
# the tree. This script re-derives those facts from the *current working tree*
# of the repository so that a reader can see whether the premise still holds:
#
#   1. token scan of the three crates' sources                      (DESIGN §2.2)
#   2. token scan of the macro-expanded library, f64 / decimal / astro, and
#      byte-identity of a second expansion at a different -j        (DESIGN §2.2)
#   3. type-level probe: every public value type is plain data      (DESIGN §2.3)
#   4. schedule-insensitivity probe: N threads sharing operands give logs
#      byte-identical to the sequential log, both back-ends         (DESIGN §3.6)
#   5. (--miri K) the same probe under Miri's seeded scheduler, K seeds, with
#      data-race detection                                          (DESIGN §4)
#
# usage: audit/seam_audit.sh [--repo DIR] [--miri K] [--threads N] [--rounds R]
# exit:  0 = audit ran; last line is `SEAMS none` or `SEAMS found ...`
#        2 = the audit itself could not run (build failure etc.)
# All scratch output goes to a mktemp directory that is removed on exit.
set -u
REPO=/repo; MIRI=0; THREADS=16; ROUNDS=50
while [ $# -gt 0 ]; do
  case "$1" in
    --repo) REPO=$2; shift 2;;
    --miri) MIRI=$2; shift 2;;
    --threads) THREADS=$2; shift 2;;
    --rounds) ROUNDS=$2; shift 2;;
    *) echo "unknown argument $1" >&2; exit 2;;
  esac
done
HERE=$(cd "$(dirname "$0")" && pwd)
REPO=$(cd "$REPO" && pwd) || exit 2
S=$(mktemp -d "${TMPDIR:-/tmp}/seam_audit.XXXXXX") || exit 2
trap 'rm -rf "$S"' EXIT
export CARGO_NET_OFFLINE=true
found=()
t0=$(date +%s)
echo "seam audit of $REPO (HEAD $(git -C "$REPO" rev-parse --short HEAD 2>/dev/null), $(git -C "$REPO" status --porcelain 2>/dev/null | wc -l) modified paths)"

hits_of() { sed -n 's/^SCAN .* hits=\([0-9]*\)$/\1/p' "$1"; }

echo "== 1. source token scan"
python3 "$HERE/scan.py" source "$REPO/src" "$REPO/qty-macros/src" "$REPO/astronimical_quantities/src" > "$S/scan_src.txt" || exit 2
grep -vE ' 0$' "$S/scan_src.txt"
[ "$(hits_of "$S/scan_src.txt")" = 0 ] || found+=("source-tokens")

echo "== 2. macro-expansion token scan"
expand() { # label, jobs, package, features
  CARGO_TARGET_DIR="$S/exp-$1-$2" cargo +nightly rustc --offline -j "$2" --lib -p "$3" \
    --manifest-path "$REPO/Cargo.toml" ${4:+--features "$4"} -- -Zunpretty=expanded \
    > "$S/exp-$1-$2.rs" 2> "$S/exp-$1-$2.err" || { tail -20 "$S/exp-$1-$2.err"; echo "expansion $1 failed" >&2; exit 2; }
  rm -rf "$S/exp-$1-$2"
}
expand f64 16 quantities doc,serde
expand dec 16 quantities doc,serde,fpdec
expand astro 16 astronomical-quantities ""
expand f64 1 quantities doc,serde
for l in f64 dec astro; do
  python3 "$HERE/scan.py" "exp-$l" "$S/exp-$l-16.rs" > "$S/scan_$l.txt" || exit 2
  grep -vE ' 0$' "$S/scan_$l.txt"
  [ "$(hits_of "$S/scan_$l.txt")" = 0 ] || found+=("expanded-tokens-$l")
done
if cmp -s "$S/exp-f64-16.rs" "$S/exp-f64-1.rs"; then
  echo "EXPANSION deterministic: -j16 and -j1 outputs byte-identical (sha256 $(sha256sum < "$S/exp-f64-16.rs" | cut -c1-16))"
else
  echo "EXPANSION differs between -j16 and -j1"; found+=("nondeterministic-expansion")
fi
echo "EXPANSION types=$(grep -cE '^\s*pub (struct|enum) ' "$S/exp-f64-16.rs") impls=$(grep -cE '^\s*(unsafe )?impl' "$S/exp-f64-16.rs") consts=$(grep -cE '^\s*(pub )?const [A-Z_]+' "$S/exp-f64-16.rs")"

echo "== 3+4. type-level probe and schedule-insensitivity probe"
mkdir -p "$S/probe" && cp -r "$HERE/probe/." "$S/probe/" && sed -i "s#__REPO__#$REPO#g" "$S/probe/Cargo.toml" \
  && cp "$REPO/Cargo.lock" "$S/probe/" || exit 2
probe() { # label, cargo feature args...
  local label=$1; shift
  ( cd "$S/probe" && CARGO_TARGET_DIR="$S/probe-target" cargo build --offline --release "$@" ) > "$S/probe-$label.err" 2>&1
  if [ $? -ne 0 ]; then
    grep -E '^error' -A6 "$S/probe-$label.err" | head -40
    echo "PROBE $label: a public type lost Copy/Send/Sync/RefUnwindSafe, or the API changed (build failed)"
    found+=("probe-build-$label"); return
  fi
  "$S/probe-target/release/seam-probe" types | sed "s/^/[$label] /" || found+=("types-$label")
  "$S/probe-target/release/seam-probe" sched "$THREADS" "$ROUNDS" 0 > "$S/sched-$label.txt" 2>&1
  local rc=$?
  sed "s/^/[$label] /" "$S/sched-$label.txt"
  [ $rc -eq 0 ] && grep -q '^SCHED identical' "$S/sched-$label.txt" || found+=("schedule-dependence-$label")
}
probe f64
probe dec --no-default-features --features fpdec

if [ "$MIRI" -gt 0 ]; then
  echo "== 5. schedule probe under Miri, seeds 0..$MIRI (slow: minutes per seed batch)"
  ( cd "$S/probe" && CARGO_TARGET_DIR="$S/probe-miri" \
      MIRIFLAGS="-Zmiri-many-seeds=0..$MIRI -Zmiri-preemption-rate=0.1" \
      cargo +nightly miri run --offline -- sched 3 1 0 4 ) > "$S/miri.txt" 2>&1
  rc=$?
  n=$(grep -c '^SCHED identical' "$S/miri.txt")
  echo "[miri] seeds_identical=$n of $MIRI exit=$rc"
  if [ $rc -ne 0 ] || [ "$n" -ne "$MIRI" ]; then
    grep -E 'error|Undefined Behavior|Data race|DIVERGED' -A8 "$S/miri.txt" | head -40
    found+=("schedule-dependence-miri")
  fi
fi

echo "== verdict ($(( $(date +%s) - t0 )) s)"
if [ ${#found[@]} -eq 0 ]; then
  echo "premise of the not-applicable verdicts (DESIGN.md) holds for this tree: no shared mutable state, thread, lock, clock or I/O inside the library; the only caller-supplied code that runs inside an operation is the fmt::Write sink behind Display and the serde Serializer / Deserializer behind the derived impls, which is what ./check C15 and ./check C17 simulate"
  echo "SEAMS none"
else
  echo "premise of the not-applicable verdicts does NOT hold for this tree; revisit DESIGN.md §7 for the properties concerned"
  echo "SEAMS found: ${found[*]}"
fi
exit 0
